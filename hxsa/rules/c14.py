# -*- coding: utf-8 -*-
"""C14 - date and time functions agree with the proleptic Gregorian calendar (structural clauses)."""
import ast
import calendar
from fractions import Fraction

from ..model import AnalysisError, src
from ..paths import walk_no_defs
from ..absint import (Interp, Const, Sym, Err, Atom, Top, Func, ListV, Obj, ClassV, Aff, AffCmp, Raised, Unmodelled, Exc, k)
from .. import abshelp as H, ctx as ctxmod, purity, guards, sa
from .c01 import error_singletons


def date_module(model):
    m, f = model.registered('EDATE')
    return m


def run(model, res, tier):
    c = ctxmod.get(model)
    res.explanation = (
        'R1 YEAR..SECOND return the like-named component of the converted argument (date-time, ISO text through the text parser) and '
        'pass an error through. R2 DATE/TIME hand (year, month, day) / (hour, minute, second) to the constructor in those roles; years '
        'below 1900 are offset by 1900 (affine piece). R3 every boolean expression over year % 4/100/400 in the module equals the '
        'Gregorian leap rule on all 400 residues (complete finite quotient). R4 month-length lists and 30-day-month sets agree with the '
        'calendar. R5 EDATE reaches the constructor only with 1900 <= year <= 9999 (guard facts); DATEDIF is #NUM! when start > end; '
        'WEEKDAY is #NUM! for other numbering types. R6 WEEKDAY equals the three numberings on the complete domain weekday 0..6. '
        'R7 EDATE month arithmetic: for every start month 1..12 and every offset residue 0..11, with the offset 12q+r and the start year '
        'as linear forms, the constructor receives year = start + q + carry and month = ((start_month-1+r) mod 12)+1 (finite quotient x '
        'linear forms); the leap test / month-length lookup of the day clamp is applied to that target year and month. R8 no 12-hour '
        'strptime directive without AM/PM. DAYS/DATEDIF equal to calendar differences for all date pairs is NOT decided.')
    for rid, txt in (('R1', 'accessors return the like-named component'), ('R2', 'constructor roles; year offset'),
                     ('R3', 'leap predicates equal the Gregorian rule on all residues mod 400'), ('R4', 'month-length tables agree with the calendar'),
                     ('R5', '#NUM! guards'), ('R6', 'WEEKDAY numbering over 0..6 x types 1..3'),
                     ('R7', 'EDATE month/year arithmetic and day clamp on the target year'), ('R8', 'text parsing formats'),
                     ('R9', 'no cache or shared state'), ('R10', 'DATEDIF y / m / ym are the component formulas with a borrow on the day'),
                     ('R12', 'serial numbers are exact day counts: one conversion authority, converters piecewise-affine, inverse, monotone (shared with C13.R1, C13.R2)'),
                     ('R11', 'DAYS(end, start) and DATEDIF(start, end, "d") are serial(end) - serial(start), in that order (the serial is the day count, C13)')):
        res.rule(rid, txt)
    res.trusted += ['hxsa abstract interpreter with linear forms', 'python calendar module as oracle for leap years and month lengths']
    em, singles = error_singletons(model)
    E = dict((msg, n) for n, msg in singles.items())
    opaque = H.date_opaque(model)
    H.safely(res, 'R1', 'accessors', _accessors, model, res, opaque)
    H.safely(res, 'R2', 'constructors', _constructors, model, res, opaque)
    H.safely(res, 'R1', 'leap_and_tables', _leap_and_tables, model, res)
    H.safely(res, 'R5', 'guards', _guards, model, res, opaque, E)
    H.safely(res, 'R6', 'WEEKDAY', _weekday, model, res, opaque, E)
    H.safely(res, 'R7', 'EDATE', _edate, model, res, opaque, E)
    H.safely(res, 'R10', 'DATEDIF', _datedif, model, res, opaque, E)
    H.safely(res, 'R11', 'DAYS', _days, model, res, opaque, E)
    from . import c13
    um = [mm for mm in model.modules.values() if 'serialize_date' in mm.functions and 'parse_date' in mm.functions]
    if um:
        H.borrow(res, 'R12', 'date conversion authority', lambda tmp: c13._r1(model, tmp, c, um[-1]))
        H.borrow(res, 'R12', 'date converters', lambda tmp: c13._r2(model, tmp, c, um[-1]))
    H.safely(res, 'R1', 'formats', _formats, model, res)
    keys = []
    for n in ('DATE', 'TIME', 'YEAR', 'MONTH', 'DAY', 'HOUR', 'MINUTE', 'SECOND', 'DAYS', 'DATEDIF', 'EDATE', 'WEEKDAY', 'DATEVALUE', 'TIMEVALUE'):
        m, f = model.registered(n)
        keys.append((m.name, m.qualname_of(f)))
    region = c.cg.reachable(keys)
    res.rule('RX', 'where a function answers "an error rather than a value" by raising, the catch-all of parse() turns every exception class into #ERROR! (shared with C01.R1)')
    from . import c01 as _c01
    H.borrow(res, 'RX', 'catch-all of parse()', lambda tmp: _c01.catch_all_rule(model, tmp, c))
    purity.check_region(res, c, 'R9', None, region, 'a date function')
    purity.check_memo(res, c, 'R9', region, 'a date function')


def _runs(model, name, mk, opaque=None, flags=None):
    return H.run_function(model, H.registry_func(model, name), mk, opaque=opaque, flags=flags)


ISO_ORDER = (('YEAR', 'year'), ('MONTH', 'month'), ('DAY', 'day'), ('HOUR', 'hour'), ('MINUTE', 'minute'), ('SECOND', 'second'))
ISO_TABLE = (
    ('2020-10-12', (2020, 10, 12, 0, 0, 0)),
    ('2020-10-12T10:04:11', (2020, 10, 12, 10, 4, 11)),
    ('2020-10-12 10:04:11', (2020, 10, 12, 10, 4, 11)),
    ('1999-12-31T23:59', (1999, 12, 31, 23, 59, 0)),
    ('1999-12-31T23', (1999, 12, 31, 23, 0, 0)),             # reduced precision
    ('2024-02-29T070809', (2024, 2, 29, 7, 8, 9)),           # basic format time
    ('2024-02-29T07:08:09.250', (2024, 2, 29, 7, 8, 9)),     # fraction of a second
    ('2001-01-02T03:04:05Z', (2001, 1, 2, 3, 4, 5)),
)


def _accessors(model, res, opaque):
    comp = {'YEAR': 'year', 'MONTH': 'month', 'DAY': 'day', 'HOUR': 'hour', 'MINUTE': 'minute', 'SECOND': 'second'}
    for name, attr in sorted(comp.items()):
        m, f = model.registered(name)
        outs = _runs(model, name, lambda: [Sym('datetime', 'd')], opaque)
        ok = len(outs) == 1 and outs[0].kind == 'return' and isinstance(outs[0].value, Atom) and outs[0].value.op == attr and \
            getattr(outs[0].value.args[0], 'name', None) == 'd'
        res.ob('R1', name, 'date-time argument', ok, H.describe(outs))
        if not ok:
            res.violation('R1', 'function:%s:component' % name, m.where(f), '%s(date-time) must be its .%s; got %s' % (name, attr, '; '.join(H.describe(outs))), func=f.name)
        outs = _runs(model, name, lambda: [Sym('err', 'E')], opaque)
        ok = all(o.kind == 'return' and isinstance(o.value, Sym) and o.value.name == 'E' for o in outs)
        res.ob('R1', name, 'error argument', ok, H.describe(outs))
        if not ok:
            res.violation('R1', 'function:%s:error-argument' % name, m.where(f), '%s of an error must be that error; got %s' % (name, '; '.join(H.describe(outs))), func=f.name)
        # text: parsed by the text parser, then the same component
        outs = _runs(model, name, lambda: [Sym('str', 'T')], opaque)
        n = 0
        for o in outs:
            if o.imprecise or o.kind != 'return' or o.value.tag == 'err':
                continue
            if any(t.startswith(('int(', 'float(')) and alt is True for (t, alt, s) in o.notes):
                continue    # numeric text is a serial
            v = o.value
            n += 1
            okt = isinstance(v, Atom) and v.op == attr and isinstance(v.args[0], Atom) and \
                v.args[0].op in ('to_date', 'datetime.datetime.strptime', 'datetime.datetime.fromisoformat') and getattr(v.args[0].args[0], 'name', None) == 'T'
            res.ob('R1', name, 'date text', okt, repr(v)[:80])
            if not okt:
                res.violation('R1', 'function:%s:text-component' % name, m.where(f),
                              '%s(text) must be the .%s of the parsed text; got %r' % (name, attr, v), func=f.name)
        res.ob('R1', name, 'a text trace exists', n >= 1)
    # constant ISO 8601 texts: either handed to the reference text parser, or - a hand-written fast path - folded to the components
    decided = 0
    for text, want in ISO_TABLE:
        for idx, (name, attr) in enumerate(ISO_ORDER):
            m, f = model.registered(name)
            try:
                outs = _runs(model, name, lambda: [Const(text)], opaque)
            except Unmodelled as e:
                res.ob('R1', name, {'text': text}, True, 'undecided: %s' % e)
                continue
            # ISO 8601 text is within what the reference parser reads: its refusal is not a world to consider
            outs = [o for o in outs if not any(t.startswith('dateutil parses') and alt is False for (t, alt, s_) in o.notes)]
            if len(outs) != 1 or outs[0].imprecise or outs[0].kind != 'return':
                res.ob('R1', name, {'text': text}, True, 'undecided: %d outcomes' % len(outs))
                continue
            v = outs[0].value
            if isinstance(v, Atom) and v.op == attr and isinstance(v.args[0], Atom) and v.args[0].op == 'to_date' and \
                    isinstance(v.args[0].args[0], Const) and v.args[0].args[0].value == text:
                decided += 1
                res.ob('R1', name, {'text': text, 'by': 'the reference text parser'}, True)
                continue
            if isinstance(v, Const) and isinstance(v.value, int) and not isinstance(v.value, bool):
                decided += 1
                ok = v.value == want[idx]
                res.ob('R1', name, {'text': text, 'folded': v.value}, ok)
                if not ok:
                    res.violation('R1', 'function:%s:iso-text' % name, m.where(f),
                                  '%s(%r) is folded to %r by a hand-written text path; the %s written in that ISO 8601 text is %d'
                                  % (name, text, v.value, attr, want[idx]), func=f.name)
                continue
            if isinstance(v, Err):
                decided += 1
                res.ob('R1', name, {'text': text, 'result': repr(v)}, False)
                res.violation('R1', 'function:%s:iso-text' % name, m.where(f),
                              '%s(%r) gives %r; the %s written in that ISO 8601 text is %d' % (name, text, v, attr, want[idx]), func=f.name)
                continue
            res.ob('R1', name, {'text': text}, True, 'undecided: %r' % (v,))
    res.soft_floor('ISO text x accessor cases decided', decided, 30)


def _constructors(model, res, opaque):
    m, f = model.registered('DATE')
    month_of = {}
    try:
        outs = _runs(model, 'DATE', lambda: [Aff(1, 0, 'int', 'y'), Sym('int', 'mo'), Sym('int', 'd')], opaque)
    except Unmodelled:
        # code that needs the month as a number (a calendar lookup): one run per month of the year instead
        outs = []
        for mo_ in range(1, 13):
            for o in _runs(model, 'DATE', lambda mo_=mo_: [Aff(1, 0, 'int', 'y'), Const(mo_), Sym('int', 'd')], opaque):
                month_of[id(o)] = mo_
                outs.append(o)
    n = 0
    for o in outs:
        if o.imprecise or o.kind != 'return' or not isinstance(o.value, Atom):
            continue
        v = o.value
        box, multi = H.box_of(o.notes)
        lo, los, hi, his, excl = box.get('y', [None, False, None, False, set()])
        below = hi is not None and (hi < 1900 or (hi == 1900 and his))
        mo_ok = len(v.args) == 3 and (getattr(v.args[1], 'name', None) == 'mo' if id(o) not in month_of else
                                      (isinstance(v.args[1], Const) and v.args[1].value == month_of[id(o)]))
        day_ok = len(v.args) == 3 and getattr(v.args[2], 'name', None) == 'd'
        if not day_ok and len(v.args) == 3 and id(o) in month_of:
            # a day clamped into the month is the day itself for every valid date - provided the month length used is that of the
            # year the date is built in:  max(1, min(d, L))  with L >= the length of the month in the constructed year
            import calendar as _cal

            def clamp_limit(e):
                if isinstance(e, Atom) and e.op == 'max' and len(e.args) == 2:
                    a_, b_ = e.args
                    if isinstance(b_, Const):
                        a_, b_ = b_, a_
                    if isinstance(a_, Const) and a_.value == 1:
                        return clamp_limit(b_)
                if isinstance(e, Atom) and e.op == 'min' and len(e.args) == 2:
                    a_, b_ = e.args
                    if isinstance(a_, Const):
                        a_, b_ = b_, a_
                    if getattr(a_, 'name', None) == 'd' and isinstance(b_, Const) and isinstance(b_.value, int):
                        return b_.value
                return None
            L = clamp_limit(v.args[2])
            if L is not None:
                mo_ = month_of[id(o)]
                need = _cal.monthrange(2000, mo_)[1]       # 29 for February
                if mo_ == 2 and any(isinstance(s_, tuple) and s_ and s_[0] == 'leap' and s_[1] == repr(v.args[0]) and alt_ is False
                                    for (t_, alt_, s_) in o.notes):
                    need = 28       # the constructed year itself was found to be a common year
                day_ok = L >= need
        ok = v.op == 'datetime' and len(v.args) == 3 and isinstance(v.args[0], Aff) and mo_ok and day_ok
        if ok:
            y = v.args[0]
            want = 1900 if below else 0
            ok = dict(y.coeffs) == {'y': 1} and y.const == want
        n += 1
        res.ob('R2', 'DATE', {'year range': 'y < 1900' if below else 'y >= 1900', 'constructor': repr(v)}, ok)
        if not ok:
            res.violation('R2', 'function:DATE:constructor', m.where(f),
                          'DATE(y, m, d) must construct (y + 1900 if y < 1900 else y, m, d); on the piece %s it constructs %r'
                          % ('y < 1900' if below else 'y >= 1900', v), func=f.name)
    res.soft_floor('DATE pieces', n, 2)
    m, f = model.registered('TIME')
    outs = _runs(model, 'TIME', lambda: [Sym('int', 'h'), Sym('int', 'mi'), Sym('int', 's')], opaque)
    n = 0
    for o in outs:
        if o.imprecise or o.kind != 'return' or not isinstance(o.value, Atom):
            continue
        v = o.value
        n += 1
        names = [getattr(a, 'name', getattr(a, 'value', None)) for a in v.args]
        ok = v.op == 'datetime' and len(v.args) == 6 and names[3:] == ['h', 'mi', 's']
        res.ob('R2', 'TIME', {'constructor': repr(v)}, ok)
        if not ok:
            res.violation('R2', 'function:TIME:constructor', m.where(f), 'TIME(h, m, s) must construct a date-time with (hour=h, minute=m, second=s); got %r' % (v,), func=f.name)
    res.soft_floor('TIME traces', n, 1)


def _eval_bool(node, env):
    if isinstance(node, ast.BoolOp):
        vals = [_eval_bool(v, env) for v in node.values]
        return all(vals) if isinstance(node.op, ast.And) else any(vals)
    if isinstance(node, ast.UnaryOp) and isinstance(node.op, ast.Not):
        return not _eval_bool(node.operand, env)
    if isinstance(node, ast.Compare) and len(node.ops) == 1:
        a, b = _eval_num(node.left, env), _eval_num(node.comparators[0], env)
        op = node.ops[0]
        return {ast.Eq: a == b, ast.NotEq: a != b, ast.Lt: a < b, ast.LtE: a <= b, ast.Gt: a > b, ast.GtE: a >= b}[type(op)]
    raise ValueError('not a finite-quotient expression')


def _eval_num(node, env):
    if isinstance(node, ast.Constant) and isinstance(node.value, int):
        return node.value
    if isinstance(node, ast.BinOp) and isinstance(node.op, ast.Mod):
        return _eval_num(node.left, env) % _eval_num(node.right, env)
    if isinstance(node, (ast.Name, ast.Attribute)):
        return env[src(node)]
    raise ValueError('not a finite-quotient expression')


def _leap_tests(f):
    """Maximal boolean expressions that mention  <expr> % 4|100|400."""
    found = []

    def has_mod(n):
        return any(isinstance(x, ast.BinOp) and isinstance(x.op, ast.Mod) and isinstance(x.right, ast.Constant) and x.right.value in (4, 100, 400)
                   for x in ast.walk(n))

    def visit(n, parent_is_bool):
        is_bool = isinstance(n, (ast.BoolOp, ast.Compare)) or (isinstance(n, ast.UnaryOp) and isinstance(n.op, ast.Not))
        if is_bool and has_mod(n) and not parent_is_bool:
            found.append(n)
            return
        for ch in ast.iter_child_nodes(n):
            visit(ch, is_bool and has_mod(n))
    visit(f, False)
    return found


def _leap_and_tables(model, res):
    dm = date_module(model)
    n = 0
    for q, f in sorted(dm.functions.items()):
        if '.' in q:
            continue
        for t in _leap_tests(f):
            subjects = set(src(x.left) for x in ast.walk(t) if isinstance(x, ast.BinOp) and isinstance(x.op, ast.Mod))
            if len(subjects) != 1:
                res.ob('R3', q, src(t), True, 'undecided: several year expressions')
                continue
            subj = list(subjects)[0]
            n += 1
            bad = None
            try:
                for y in range(400):
                    if _eval_bool(t, {subj: y + 2000}) != calendar.isleap(y + 2000):
                        bad = y + 2000
                        break
            except (ValueError, KeyError):
                res.ob('R3', q, src(t), True, 'undecided: not a pure residue expression')
                continue
            res.ob('R3', q, src(t), bad is None, 'all 400 residues' if bad is None else 'differs for year %d' % bad)
            if bad is not None:
                res.violation('R3', 'function:%s:leap-rule' % q, dm.where(t),
                              'the leap-year test "%s" differs from the Gregorian rule, e.g. for the year %d (is leap: %s)'
                              % (src(t), bad, calendar.isleap(bad)), case=bad, func=q)
        for node in walk_no_defs(f):
            if isinstance(node, ast.List) and len(node.elts) == 12:
                vals = []
                for i, e in enumerate(node.elts):
                    if isinstance(e, ast.Name):
                        e = sa.resolve_local(f, e)      # february = 29 if <leap> else 28
                    if isinstance(e, ast.Constant):
                        vals.append(e.value)
                    elif isinstance(e, ast.IfExp) and isinstance(e.body, ast.Constant) and isinstance(e.orelse, ast.Constant):
                        vals.append((e.body.value, e.orelse.value))
                    elif isinstance(e, ast.BinOp) and isinstance(e.op, ast.Add) and any(
                            isinstance(a_, ast.Constant) and isinstance(a_.value, int) and isinstance(b_, (ast.Compare, ast.BoolOp))
                            for a_, b_ in ((e.left, e.right), (e.right, e.left))):
                        # 28 + <condition>: a condition counts as 0 or 1 (the condition itself is R3's business)
                        base = [a_.value for a_ in (e.left, e.right) if isinstance(a_, ast.Constant)][0]
                        vals.append((base + 1, base))
                    else:
                        vals.append(None)
                want = [calendar.monthrange(2001, mth)[1] for mth in range(1, 13)]
                ok = True
                for i, v in enumerate(vals):
                    if v is None:
                        continue        # an entry computed in a way not read here: undecided, not wrong
                    if i == 1:
                        ok = ok and (v == (29, 28) or v in (28, 29))
                    else:
                        ok = ok and v == want[i]
                n += 1
                res.ob('R4', q, 'month-length list %s' % (vals,), ok)
                if not ok:
                    res.violation('R4', 'function:%s:month-lengths' % q, dm.where(node),
                                  'the month-length table %s does not agree with the calendar %s (February 29/28 by leap year)' % (vals, want), func=q)
            if isinstance(node, ast.Set) and all(isinstance(e, ast.Constant) and isinstance(e.value, int) for e in node.elts) and len(node.elts) >= 3:
                vals = sorted(e.value for e in node.elts)
                if all(1 <= v <= 12 for v in vals):
                    ok = vals == [4, 6, 9, 11]
                    n += 1
                    res.ob('R4', q, '30-day months %s' % vals, ok)
                    if not ok:
                        res.violation('R4', 'function:%s:thirty-day-months' % q, dm.where(node),
                                      'the set of 30-day months %s is not {4, 6, 9, 11}' % vals, func=q)
    res.soft_floor('leap tests and month tables', n, 3)


def _guards(model, res, opaque, E):
    # EDATE: constructor only with 1900 <= year <= 9999
    m, f = model.registered('EDATE')
    consts = guards.module_consts(m, model)
    ctors = [n for n in walk_no_defs(f) if isinstance(n, ast.Call) and (sa.call_name(n) or '').endswith('datetime') and len(n.args) == 3]
    final = [c_ for c_ in ctors if not all(guards.const_number(a, consts) is not None for a in c_.args)]
    res.floor('EDATE result constructors', len(final), 1)
    for call in final:
        yexpr = src(call.args[0])
        facts = guards.facts_at(m, f, call)
        iv = guards.interval_of(facts, yexpr, consts)
        ok = iv.ge(1900) and iv.le(9999)
        res.ob('R5', 'EDATE', {'constructor year': yexpr, 'facts': repr(iv)}, ok)
        if not ok:
            res.violation('R5', 'function:EDATE:year-range', m.where(call),
                          'EDATE constructs its result with year %s although the guards only establish %s; outside 1900-9999 it must give #NUM! '
                          '(the constructor raises for year > 9999 and accepts years before 1900)' % (yexpr, iv), func=f.name)
    # DATEDIF: start > end -> #NUM!
    m, f = model.registered('DATEDIF')
    outs = _runs(model, 'DATEDIF', lambda: [Aff(1, 0, 'dt', 's'), Aff(1, 0, 'dt', 'e'), Const('d')], opaque)
    n = 0
    for o in outs:
        if o.imprecise:
            continue
        later = False
        for (t, alt, s) in o.notes:
            if isinstance(s, AffCmp) and set(s.coeffs) == set(['s', 'e']):
                # s - e < 0 ?  (start before end)
                cs, ce = s.coeffs['s'], s.coeffs['e']
                if s.op in ('lt', 'le') and cs > 0 and ce < 0 and alt is False:
                    later = True
                if s.op in ('gt', 'ge') and cs > 0 and ce < 0 and alt is True:
                    later = True
                if s.op == 'eq' and alt is True:
                    later = False
        eq = any(isinstance(s, AffCmp) and s.op == 'eq' and alt is True for (t, alt, s) in o.notes)
        if later and not eq:
            n += 1
            ok = o.kind == 'return' and isinstance(o.value, Err) and o.value.name == E['#NUM!']
            res.ob('R5', 'DATEDIF', 'start later than end', ok, repr(o)[:120])
            if not ok:
                res.violation('R5', 'function:DATEDIF:start-after-end', m.where(f), 'DATEDIF with the start later than the end must give #NUM!; got %r' % (o,), func=f.name)
    res.soft_floor('DATEDIF traces with start > end', n, 1)
    # ... for every unit, on constant dates (a start one day, one month and one year after the end)
    import datetime as _dtm
    from fractions import Fraction as _Fr

    def cdt(y, mo, d):
        delta = _dtm.datetime(y, mo, d) - _dtm.datetime(1970, 1, 1)
        return Aff(0, _Fr(delta.days * 86400 + delta.seconds), 'dt')
    n_units = 0
    for unit in ('d', 'm', 'y', 'ym', 'yd', 'md'):
        for (sy, smo, sd), (ey, emo, ed) in (((2020, 10, 6), (2020, 10, 5)), ((2020, 11, 5), (2020, 10, 5)), ((2020, 10, 5), (2019, 10, 6)),
                                            ((2021, 3, 1), (2020, 2, 29))):
            try:
                outs = [o for o in _runs(model, 'DATEDIF', lambda: [cdt(sy, smo, sd), cdt(ey, emo, ed), Const(unit)], opaque) if not o.imprecise]
            except Unmodelled as e:
                res.ob('R5', 'DATEDIF', {'unit': unit, 'start': [sy, smo, sd], 'end': [ey, emo, ed]}, True, 'undecided: %s' % e)
                continue
            if len(outs) != 1:
                res.ob('R5', 'DATEDIF', {'unit': unit, 'start': [sy, smo, sd], 'end': [ey, emo, ed]}, True, 'undecided: %d outcomes' % len(outs))
                continue
            n_units += 1
            o = outs[0]
            ok = o.kind == 'return' and isinstance(o.value, Err) and o.value.name == E['#NUM!']
            res.ob('R5', 'DATEDIF', {'unit': unit, 'start': [sy, smo, sd], 'end': [ey, emo, ed]}, ok, repr(o)[:80])
            if not ok:
                res.violation('R5', 'function:DATEDIF:start-after-end:%s' % unit, m.where(f),
                              'DATEDIF(%04d-%02d-%02d, %04d-%02d-%02d, "%s") - the start is later than the end - must give #NUM!; got %r'
                              % (sy, smo, sd, ey, emo, ed, unit, o), case={'unit': unit}, func=f.name)
    res.soft_floor('DATEDIF start-after-end rows decided', n_units, 12)


def _eval_atom(v, env):
    if isinstance(v, Const):
        return v.value
    if isinstance(v, Atom):
        kk = repr(v)
        if kk in env:
            return env[kk]
        if v.op in ('add', 'sub', 'mul', 'mod', 'floordiv') and len(v.args) == 2:
            a, b = _eval_atom(v.args[0], env), _eval_atom(v.args[1], env)
            if v.op in ('mod', 'floordiv') and b == 0:
                raise ValueError('division by zero in %r' % (v,))
            return {'add': lambda: a + b, 'sub': lambda: a - b, 'mul': lambda: a * b, 'mod': lambda: a % b, 'floordiv': lambda: a // b}[v.op]()
        if v.op == 'item' and len(v.args) == 2 and isinstance(v.args[0], ListV) and not v.args[0].has_splice():
            # a table of constants indexed by the (now known) value
            i = _eval_atom(v.args[1], env)
            items = v.args[0].items
            if isinstance(i, int) and -len(items) <= i < len(items):
                return _eval_atom(items[i], env)
            raise ValueError('index %r outside %r' % (i, v.args[0]))
    raise ValueError('cannot evaluate %r' % (v,))


def _weekday(model, res, opaque, E):
    m, f = model.registered('WEEKDAY')
    oracle = {1: lambda w: (w + 1) % 7 + 1, 2: lambda w: w + 1, 3: lambda w: w}
    n = 0
    for typ in (1, 2, 3):
        try:
            outs = _runs(model, 'WEEKDAY', lambda typ=typ: [Sym('datetime', 'd'), Const(typ)], opaque)
        except Unmodelled as e:
            res.ob('R6', 'WEEKDAY', {'type': typ}, True, 'undecided: %s' % e)
            continue
        for w in range(7):
            env = {'weekday(d:datetime)': w}
            got = []
            for o in outs:
                if o.imprecise:
                    continue
                consistent = True
                for (t, alt, s) in o.notes:
                    if s is None and t.startswith('index weekday(d:datetime) within ('):
                        # a subscript of a 7-entry table by the weekday: within range for every weekday 0..6
                        size = t.count(',') + 1
                        if (0 <= w < size) != bool(alt):
                            consistent = False
                    if isinstance(s, Atom) and s.op in ('eq', 'ne', 'lt', 'le', 'gt', 'ge'):
                        try:
                            a, b = _eval_atom(s.args[0], env), _eval_atom(s.args[1], env)
                        except ValueError:
                            consistent = None
                            break
                        val = {'eq': a == b, 'ne': a != b, 'lt': a < b, 'le': a <= b, 'gt': a > b, 'ge': a >= b}[s.op]
                        if val != bool(alt):
                            consistent = False
                if consistent is None:
                    got.append('undecidable')
                elif consistent:
                    try:
                        got.append(_eval_atom(o.value, env) if o.kind == 'return' else 'raise')
                    except ValueError:
                        got.append(repr(o.value))
            n += 1
            want = oracle[typ](w)
            ok = got == [want]
            res.ob('R6', 'WEEKDAY', {'type': typ, 'python weekday (Mon=0)': w, 'expected': want}, ok, repr(got))
            if not ok:
                res.violation('R6', 'function:WEEKDAY:numbering', m.where(f),
                              'WEEKDAY with numbering type %d gives %s for a %s; expected %d' % (typ, got, ['Monday', 'Tuesday', 'Wednesday', 'Thursday', 'Friday', 'Saturday', 'Sunday'][w], want),
                              case={'type': typ, 'weekday': w}, func=f.name)
    res.soft_floor('WEEKDAY cells (weekday x type)', n, 21)
    for typ in (0, 4, 11, -1, -2, -3, -4, 2.5):
        outs = _runs(model, 'WEEKDAY', lambda typ=typ: [Sym('datetime', 'd'), Const(typ)], opaque)
        ok = all(o.kind == 'return' and isinstance(o.value, Err) and o.value.name == E['#NUM!'] for o in outs)
        res.ob('R5', 'WEEKDAY', {'type': typ}, ok, H.describe(outs))
        if not ok:
            res.violation('R5', 'function:WEEKDAY:other-type', m.where(f), 'WEEKDAY with numbering type %d must give #NUM!; got %s' % (typ, '; '.join(H.describe(outs))), func=f.name)


def _edate(model, res, opaque, E):
    m, f = model.registered('EDATE')
    # structural: the day clamp looks at the target year / month (the constructor's own arguments)
    ctors = [n for n in walk_no_defs(f) if isinstance(n, ast.Call) and (sa.call_name(n) or '').endswith('datetime') and len(n.args) == 3
             and not all(isinstance(a, ast.Constant) for a in n.args)]
    if ctors:
        ysrc, msrc = src(ctors[-1].args[0]), src(ctors[-1].args[1])
        for t in _leap_tests(f):
            subj = set(src(x.left) for x in ast.walk(t) if isinstance(x, ast.BinOp) and isinstance(x.op, ast.Mod))
            ok = subj == set([ysrc])
            res.ob('R7', 'EDATE', 'leap test %s is on the target year %s' % (src(t)[:50], ysrc), ok, sorted(subj))
            if not ok:
                res.violation('R7', 'function:EDATE:clamp-year', m.where(t),
                              'the day clamp tests the leap year of %s, not of the year the result is constructed with (%s): 31 Jan + 1 month '
                              'lands on 29 Feb in the wrong years' % (sorted(subj), ysrc), func=f.name)
        for node in walk_no_defs(f):
            if isinstance(node, ast.Call) and (sa.call_name(node) or '') in ('calendar.monthrange', 'calendar.isleap', 'monthrange', 'isleap'):
                ok = src(node.args[0]) == ysrc and (len(node.args) < 2 or src(node.args[1]) == msrc)
                res.ob('R7', 'EDATE', '%s uses the target year/month' % src(node), ok)
                if not ok:
                    res.violation('R7', 'function:EDATE:clamp-year', m.where(node),
                                  'the day clamp looks up %s, not the year/month the result is constructed with (%s, %s)' % (src(node), ysrc, msrc), func=f.name)
        # ... and sees the value the constructor gets: no rebinding of the year / month variable between the test and the constructor
        ctor = ctors[-1]
        tests = list(_leap_tests(f)) + [n for n in walk_no_defs(f) if isinstance(n, ast.Call) and
                                        (sa.call_name(n) or '') in ('calendar.monthrange', 'calendar.isleap', 'monthrange', 'isleap')]
        # ... also when the month length comes from a module-local helper (def _days_in_month(year, month): calendar.monthrange(...))

        def looks_up_month_length(g, depth=0):
            for x in walk_no_defs(g):
                if isinstance(x, ast.Call) and (sa.call_name(x) or '') in ('calendar.monthrange', 'calendar.isleap', 'monthrange', 'isleap'):
                    return True
                if isinstance(x, ast.Call) and isinstance(x.func, ast.Name) and x.func.id in m.functions and depth < 2 and \
                        m.functions[x.func.id] is not g and looks_up_month_length(m.functions[x.func.id], depth + 1):
                    return True
            return bool(_leap_tests(g)) or any(isinstance(x, (ast.List, ast.Tuple)) and len(x.elts) in (12, 13) for x in walk_no_defs(g))
        tests += [n for n in walk_no_defs(f) if isinstance(n, ast.Call) and isinstance(n.func, ast.Name) and n.func.id in m.functions
                  and m.functions[n.func.id] is not f and isinstance(m.functions[n.func.id], ast.FunctionDef)
                  and looks_up_month_length(m.functions[n.func.id])]
        for var in set(x for x in (ysrc, msrc) if x.isidentifier()):
            rebinds = [st for st, val in sa.assignments_to(f, var)]
            for t in tests:
                if var not in [x.id for x in ast.walk(t) if isinstance(x, ast.Name)]:
                    continue
                between = [st for st in rebinds if t.lineno < st.lineno <= ctor.lineno and not any(x is t for x in ast.walk(st))]
                res.ob('R7', 'EDATE', '%s is not rebound between %s and the constructor' % (var, src(t)[:40]), not between,
                       '; '.join(src(b)[:40] for b in between))
                if between:
                    res.violation('R7', 'function:EDATE:clamp-year', m.where(t),
                                  'the day clamp evaluates %s before %s is updated (%s): the length of February is taken from a different '
                                  'year/month than the one the result is constructed with' % (src(t)[:60], var, src(between[0])[:40]), func=f.name)
    # finite quotient x linear forms: month/year arithmetic
    dt_cls = ClassV(None, ast.ClassDef(name='datetime', bases=[], keywords=[], body=[], decorator_list=[]))
    opq = dict(opaque)
    for key in list(opq):
        if key[1] == 'parse_date':
            base = opq[key]

            def par(interp, args, kwargs, base=base):
                if isinstance(args[0], Obj) and args[0].cls.name == 'datetime':
                    return args[0]
                return base(interp, args, kwargs)
            opq[key] = par
    n = 0
    bad = []
    ctor_bad = {}
    n_ctor_years = [0]
    for sm in range(1, 13):
        for r in range(12):
            def mk(sm=sm, r=r):
                start = Obj(dt_cls, {'year': Aff(1, 0, 'int', 'sy'), 'month': Const(sm), 'day': Sym('int', 'sd')})
                return [start, Aff({'q': 12}, r, 'int')]
            try:
                outs = _runs(model, 'EDATE', mk, opq)
            except Unmodelled as e:
                res.ob('R7', 'EDATE', {'start month': sm, 'offset residue': r}, True, 'undecided: %s' % e)
                res.notes.append('C14.R7: %s' % e)
                bad = None
                break
            total = sm - 1 + r
            want_month = total % 12 + 1
            carry = total // 12
            # every date-time the code constructs on the way (month-length helpers included) has a year the constructor accepts
            for o in outs:
                for ev in o.events:
                    if ev[0] != 'datetime-ctor' or not ev[1] or not isinstance(ev[1][0], Aff):
                        continue
                    lo, hi = _lin_bounds(ev[1][0], ev[2])
                    n_ctor_years[0] += 1
                    if hi is None or hi > 9999 or (lo is not None and lo < 1):
                        key_ = repr(ev[1][0])
                        if key_ not in ctor_bad:
                            ctor_bad[key_] = (sm, r, ev[1], lo, hi)
            for o in outs:
                if o.imprecise or o.kind != 'return' or not isinstance(o.value, Atom) or o.value.op != 'datetime':
                    continue
                n += 1
                y, mo = o.value.args[0], o.value.args[1]
                ok = isinstance(y, Aff) and dict(y.coeffs) == {'sy': 1, 'q': 1} and y.const == carry and isinstance(mo, Const) and mo.value == want_month
                if not ok:
                    bad.append((sm, r, repr(y), repr(mo), carry, want_month))
        if bad is None:
            break
    # the ends of the range: a target date inside 1900-9999 is a date, one month beyond either end is #NUM! (constant start dates)
    n_edge = 0
    for (sy_, sm_, sd_), off_, want_ in (((9998, 12, 15), 1, (9999, 1, 15)), ((9999, 1, 31), 3, (9999, 4, 30)), ((9999, 11, 30), 1, (9999, 12, 30)),
                                         ((9999, 12, 1), 1, 'NUM'), ((1900, 2, 15), -1, (1900, 1, 15)), ((1900, 1, 15), -1, 'NUM'),
                                         ((1901, 1, 31), -12, (1900, 1, 31))):
        def mk_edge(sy_=sy_, sm_=sm_, sd_=sd_, off_=off_):
            return [Obj(dt_cls, {'year': Const(sy_), 'month': Const(sm_), 'day': Const(sd_)}), Const(off_)]
        try:
            outs = [o for o in _runs(model, 'EDATE', mk_edge, opq) if not o.imprecise]
        except Unmodelled as e:
            res.ob('R5', 'EDATE', {'start': [sy_, sm_, sd_], 'months': off_}, True, 'undecided: %s' % e)
            continue
        if len(outs) != 1 or outs[0].kind != 'return':
            res.ob('R5', 'EDATE', {'start': [sy_, sm_, sd_], 'months': off_}, True, 'undecided: %s' % H.describe(outs)[:2])
            continue
        v = outs[0].value
        if isinstance(v, Aff) and v.kind == 'dt' and not v.coeffs:
            # a constant date-time (seconds since 1970-01-01): read back as (year, month, day)
            import datetime as _dtm
            d_ = _dtm.datetime(1970, 1, 1) + _dtm.timedelta(seconds=int(v.const))
            v = Atom('datetime', [Const(d_.year), Const(d_.month), Const(d_.day)], 'datetime')
        if want_ == 'NUM':
            ok = isinstance(v, Err) and v.name == E['#NUM!']
        else:
            ok = isinstance(v, Atom) and v.op == 'datetime' and len(v.args) >= 3 and all(isinstance(a_, Const) for a_ in v.args[:3]) and \
                tuple(a_.value for a_ in v.args[:3]) == want_
            if not ok and not (isinstance(v, Err) or (isinstance(v, Atom) and v.op == 'datetime' and all(isinstance(a_, Const) for a_ in v.args[:3]))):
                res.ob('R5', 'EDATE', {'start': [sy_, sm_, sd_], 'months': off_}, True, 'undecided: %r' % (v,))
                continue
        n_edge += 1
        res.ob('R5', 'EDATE', {'start': [sy_, sm_, sd_], 'months': off_, 'result': repr(v)}, ok)
        if not ok:
            res.violation('R5', 'function:EDATE:range-ends', m.where(f),
                          'EDATE(%04d-%02d-%02d, %d) gives %r; expected %s: #NUM! is for target dates outside 1900-9999 only, both end years included'
                          % (sy_, sm_, sd_, off_, v, '#NUM!' if want_ == 'NUM' else '%04d-%02d-%02d' % want_), case={'start': [sy_, sm_, sd_], 'months': off_},
                          func=f.name)
    res.soft_floor('EDATE range-end cases decided', n_edge, 5)
    if bad is not None:
        res.ob('R7', 'EDATE', '%d constructor calls over 12 start months x 12 offset residues (offset = 12q + r, start year symbolic)' % n, not bad, bad[:3])
        if bad:
            sm, r, y, mo, carry, wm = bad[0]
            res.violation('R7', 'function:EDATE:month-arithmetic', m.where(f),
                          'EDATE from month %d with an offset of 12q+%d months constructs (year=%s, month=%s); moving by whole months requires '
                          '(year = start year + q + %d, month = %d)' % (sm, r, y, mo, carry, wm), case={'start month': sm, 'offset residue': r}, func=f.name)
        res.soft_floor('EDATE constructor calls examined', n, 100)
        res.ob('R5', 'EDATE', '%d date-time constructions on the way: year within what the constructor accepts' % n_ctor_years[0], not ctor_bad,
               repr(list(ctor_bad.values())[:1]))
        for key_, (sm, r, args_, lo, hi) in sorted(ctor_bad.items())[:1]:
            res.violation('R5', 'function:EDATE:intermediate-date-out-of-range', m.where(f),
                          'EDATE (start month %d, offset 12q+%d) constructs datetime(%s) where the guards on that path only bound the year by '
                          '[%s, %s]: for a target year of 9999 the constructor raises and the formula gives #ERROR! instead of the date'
                          % (sm, r, ', '.join(repr(a) for a in args_), lo, hi), case={'start month': sm, 'offset residue': r}, func=f.name)


def _formats(model, res):
    n = 0
    for m in model.modules.values():
        for node in ast.walk(m.tree):
            if isinstance(node, ast.Constant) and isinstance(node.value, str) and '%' in node.value and any(d in node.value for d in ('%I', '%H', '%M', '%Y')):
                par = m.parent(node)
                is_parse = False
                pp = par
                for _ in range(4):
                    if isinstance(pp, ast.Call) and (sa.call_name(pp) or '').endswith('strptime'):
                        is_parse = True
                    pp = m.parent(pp) if pp is not None else None
                # also constants bound to a name that is used by strptime
                if not is_parse and isinstance(par, (ast.Assign, ast.Tuple, ast.List)):
                    is_parse = 'strptime' in m.source
                if not is_parse:
                    continue
                n += 1
                ok = not ('%I' in node.value and '%p' not in node.value)
                res.ob('R8', '%s:%s' % (m.name, m.qualname_of(node)), 'parse format %r' % node.value, ok)
                if not ok:
                    res.violation('R8', '%s:%s:twelve-hour-format' % (m.name, m.qualname_of(node)), m.where(node),
                                  'the parse format %r uses the 12-hour directive %%I without %%p: "12:30:00" is read as 00:30' % node.value,
                                  func=m.qualname_of(node))
    res.ob('R8', 'package', '%d strptime formats examined' % n, True)


def _datedif(model, res, opaque, E):
    """DATEDIF(start, end, unit) for unit in y, m, ym on component-wise date records: years symbolic (linear forms),
    months over the complete domain 1..12 x 1..12, the day comparison as the only other decision."""
    m, f = model.registered('DATEDIF')
    dt_cls = ClassV(None, ast.ClassDef(name='datetime', bases=[], keywords=[], body=[], decorator_list=[]))
    opq = dict(opaque)
    for key in list(opq):
        if key[1] == 'parse_date':
            base = opq[key]

            def par(interp, args, kwargs, base=base):
                if isinstance(args[0], Obj) and args[0].cls.name == 'datetime':
                    return args[0]
                return base(interp, args, kwargs)
            opq[key] = par
    n = 0
    bad = []
    for unit in ('m', 'y', 'ym'):
        for sm in range(1, 13):
            for em in range(1, 13):
                def mk(sm=sm, em=em, unit=unit):
                    s = Obj(dt_cls, {'year': Aff(1, 0, 'int', 'sy'), 'month': Const(sm), 'day': Aff(1, 0, 'int', 'sd'), '<sym>': Sym('datetime', 'S')})
                    e = Obj(dt_cls, {'year': Aff(1, 0, 'int', 'ey'), 'month': Const(em), 'day': Aff(1, 0, 'int', 'ed'), '<sym>': Sym('datetime', 'E')})
                    return [s, e, Const(unit)]
                outs = _runs(model, 'DATEDIF', mk, opq)
                for o in outs:
                    if o.imprecise or o.kind != 'return':
                        continue
                    before = None
                    day_lt = None
                    feb29 = False
                    for (t, alt, s) in o.notes:
                        if isinstance(s, Atom) and s.op == 'lt' and [getattr(a, 'name', None) for a in s.args] == ['S', 'E']:
                            before = bool(alt)
                        if isinstance(s, Atom) and s.op == 'eq' and sorted(getattr(a, 'name', '') for a in s.args) == ['E', 'S'] and alt:
                            before = False
                        if isinstance(s, tuple) and s and s[0] == 'feb29' and alt:
                            # an anniversary on 29 February that does not exist in the end year: start day 29, end day <= 28
                            feb29 = True
                        if isinstance(s, AffCmp) and set(s.coeffs) == set(['ed', 'sd']) and s.op in ('eq', 'ne') and s.const == 0:
                            if (s.op == 'eq') == bool(alt):
                                day_lt = False
                        if isinstance(s, AffCmp) and set(s.coeffs) == set(['ed', 'sd']):
                            # ed - sd < 0 ?
                            ce, cs = s.coeffs['ed'], s.coeffs['sd']
                            if s.op == 'lt' and ce > 0 and cs < 0 and s.const == 0:
                                day_lt = bool(alt)
                            elif s.op == 'ge' and ce > 0 and cs < 0 and s.const == 0:
                                day_lt = not bool(alt)
                            elif s.op == 'gt' and ce < 0 and cs > 0 and s.const == 0:
                                day_lt = bool(alt)
                    if not before:
                        continue
                    # feasibility of the day decisions over the calendar domain (days are 1..31; on the 29-February trace the start
                    # day is 29 and, when the end month is February too, the end day is at most 28)
                    import calendar as _cal
                    box = {'sd': [1, _cal.monthrange(2000, sm)[1]], 'ed': [1, _cal.monthrange(2000, em)[1]]}      # 29 for February
                    for (t, alt, s) in o.notes:
                        # a leap-year decision about the end / start year limits February
                        if isinstance(s, tuple) and s and s[0] == 'leap' and not alt:
                            if 'ey' in s[1] and em == 2:
                                box['ed'][1] = 28
                            if 'sy' in s[1] and sm == 2:
                                box['sd'][1] = 28
                    if feb29:
                        box['sd'] = [29, 29]
                        if em == 2:
                            box['ed'][1] = 28
                    feasible = True
                    for (t, alt, s) in o.notes:
                        if not isinstance(s, AffCmp) or not set(s.coeffs) <= set(['sd', 'ed']) or not s.coeffs:
                            continue
                        coeffs, const = dict(s.coeffs), s.const
                        if feb29 and 'sd' in coeffs:
                            const = const + coeffs.pop('sd') * 29
                        if len(coeffs) != 1:
                            continue
                        (var, a), = coeffs.items()
                        op = s.op if alt else {'lt': 'ge', 'le': 'gt', 'gt': 'le', 'ge': 'lt', 'eq': 'ne', 'ne': 'eq'}[s.op]
                        if a < 0:
                            op = {'lt': 'gt', 'le': 'ge', 'gt': 'lt', 'ge': 'le', 'eq': 'eq', 'ne': 'ne'}[op]
                        c = Fraction(-const) / Fraction(a)      # var <op> c
                        import math as _m
                        lo, hi = box[var]
                        if op == 'lt':
                            hi = min(hi, _m.ceil(c) - 1)
                        elif op == 'le':
                            hi = min(hi, _m.floor(c))
                        elif op == 'gt':
                            lo = max(lo, _m.floor(c) + 1)
                        elif op == 'ge':
                            lo = max(lo, _m.ceil(c))
                        elif op == 'eq':
                            if c.denominator != 1:
                                feasible = False
                            lo, hi = max(lo, int(c)), min(hi, int(c))
                        box[var] = [lo, hi]
                        if lo > hi:
                            feasible = False
                    if not feasible:
                        continue
                    # the day comparison itself must be possible within the boxes (end day 31 < start day <= 29 is not)
                    if day_lt is True and box['ed'][0] >= box['sd'][1]:
                        continue
                    if day_lt is False and box['ed'][1] < box['sd'][0]:
                        continue
                    if box['ed'][1] < box['sd'][0]:
                        day_lt = True
                    elif box['ed'][0] >= box['sd'][1]:
                        day_lt = False
                    v = o.value
                    if v.tag == 'err':
                        continue
                    n += 1
                    verdicts = []
                    for dl in ([day_lt] if day_lt is not None else [False, True]):
                        borrow = 1 if dl else 0
                        months_const = em - sm - borrow         # plus 12*(ey - sy)
                        if unit == 'm':
                            ok = isinstance(v, (Aff, Const)) and _is_lin(v, {'ey': 12, 'sy': -12}, months_const)
                        elif unit == 'y':
                            # whole years: ey - sy - [ (em, ed) < (sm, sd) ]
                            yb = 1 if (em < sm or (em == sm and dl)) else 0
                            ok = _is_lin(v, {'ey': 1, 'sy': -1}, -yb)
                        else:
                            # months after whole years: (12*(ey-sy) + em - sm - borrow) mod 12 - constant, the years vanish mod 12
                            ok = isinstance(v, Const) and v.value == months_const % 12
                            if not ok and isinstance(v, Atom) and v.op in ('int', 'mod'):
                                ok = None
                        verdicts.append(ok)
                    if any(x is None for x in verdicts):
                        continue
                    if not all(verdicts):
                        bad.append((unit, sm, em, ('end.day < start.day' if day_lt else 'end.day >= start.day') if day_lt is not None
                                    else 'no decision on the days', repr(v)))
    res.ob('R10', 'DATEDIF', '%d value traces over units y/m/ym x 12 x 12 months x day comparison' % n, not bad, bad[:3])
    if bad:
        unit, sm, em, dd, v = bad[0]
        res.violation('R10', 'function:DATEDIF:unit-%s' % unit, m.where(f),
                      'DATEDIF unit "%s" from month %d to month %d with %s returns %s; whole %s require the component formula with a borrow when '
                      'the end day is before the start day' % (unit, sm, em, dd, v, 'months' if unit != 'y' else 'years'),
                      case={'unit': unit, 'start month': sm, 'end month': em}, func=f.name)
    res.soft_floor('DATEDIF component traces', n, 200)


def _is_lin(v, coeffs, const):
    if isinstance(v, Const):
        return not coeffs and v.value == const
    return isinstance(v, Aff) and dict((a, int(b)) for a, b in v.coeffs.items()) == coeffs and v.const == const


def _days(model, res, opaque, E):
    def is_diff(v, wrap=None):
        if wrap is not None:
            if not (isinstance(v, Atom) and v.op in wrap and len(v.args) == 1):
                return False
            v = v.args[0]
        if not (isinstance(v, Atom) and v.op == 'sub' and len(v.args) == 2):
            return False
        a, b = v.args
        return isinstance(a, Atom) and a.op == 'serial' and getattr(a.args[0], 'name', None) == 'E' and \
            isinstance(b, Atom) and b.op == 'serial' and getattr(b.args[0], 'name', None) == 'S'
    m, f = model.registered('DAYS')
    outs = _runs(model, 'DAYS', lambda: [Sym('datetime', 'E'), Sym('datetime', 'S')], opaque)
    vals = [o for o in outs if not o.imprecise]
    ok = bool(vals) and all(o.kind == 'return' and is_diff(o.value) for o in vals)
    res.ob('R11', 'DAYS', 'DAYS(end, start) = serial(end) - serial(start)', ok or not vals, H.describe(outs)[:2])
    if vals and not ok:
        res.violation('R11', 'function:DAYS:difference', m.where(f),
                      'DAYS(end, start) must be serial(end) - serial(start); got %s' % '; '.join(H.describe(vals)[:2]), func=f.name)
    m, f = model.registered('DATEDIF')
    outs = _runs(model, 'DATEDIF', lambda: [Sym('datetime', 'S'), Sym('datetime', 'E'), Const('d')], opaque)
    for o in outs:
        if o.imprecise:
            continue
        before = None
        for (t, alt, s_) in o.notes:
            if isinstance(s_, Atom) and s_.op == 'lt' and [getattr(a, 'name', None) for a in s_.args] == ['S', 'E']:
                before = bool(alt)
            if isinstance(s_, Atom) and s_.op == 'gt' and [getattr(a, 'name', None) for a in s_.args] == ['E', 'S']:
                before = bool(alt)
        if not before:
            continue
        ok = o.kind == 'return' and (is_diff(o.value, wrap=('int', 'math.floor', 'math.trunc')) or is_diff(o.value))
        res.ob('R11', 'DATEDIF', 'unit d with start < end', ok, repr(o.value)[:80])
        if not ok:
            res.violation('R11', 'function:DATEDIF:unit-d', m.where(f),
                          'DATEDIF(start, end, "d") with start < end must be the whole number of days serial(end) - serial(start); got %r'
                          % (o.value,), func=f.name)


def _lin_bounds(aff, notes):
    """(lo, hi) of the integer linear form ``aff`` implied by the affine decisions of the trace that compare the same combination
    of variables with a constant (None = unbounded)."""
    import math
    lo = hi = None
    cs = dict(aff.coeffs)
    if not cs:
        return aff.const, aff.const
    for (t, alt, s_) in notes:
        if not isinstance(s_, AffCmp) or dict(s_.coeffs) != cs:
            # the same combination scaled by -1
            if isinstance(s_, AffCmp) and dict((k_, -v_) for k_, v_ in s_.coeffs.items()) == cs:
                op = {'lt': 'gt', 'le': 'ge', 'gt': 'lt', 'ge': 'le', 'eq': 'eq', 'ne': 'ne'}[s_.op]
                const = -s_.const
            else:
                continue
        else:
            op, const = s_.op, s_.const
        if not alt:
            op = {'lt': 'ge', 'le': 'gt', 'gt': 'le', 'ge': 'lt', 'eq': 'ne', 'ne': 'eq'}[op]
        # L + const <op> 0   =>   L <op> -const ; aff = L + aff.const
        b = -const + aff.const
        if op == 'lt':
            hi = min(hi, math.ceil(b) - 1) if hi is not None else math.ceil(b) - 1
        elif op == 'le':
            hi = min(hi, math.floor(b)) if hi is not None else math.floor(b)
        elif op == 'gt':
            lo = max(lo, math.floor(b) + 1) if lo is not None else math.floor(b) + 1
        elif op == 'ge':
            lo = max(lo, math.ceil(b)) if lo is not None else math.ceil(b)
        elif op == 'eq':
            lo = hi = b
    return lo, hi
