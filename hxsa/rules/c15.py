# -*- coding: utf-8 -*-
"""C15 - text functions satisfy the string algebra they document (structural clauses)."""
import ast

from ..model import AnalysisError, src
from ..callgraph import fmt
from ..absint import (Interp, Const, Sym, Err, Atom, Top, Func, ListV, Obj, Aff, AffCmp, Raised, Unmodelled, Exc, k)
from .. import abshelp as H, ctx as ctxmod, purity, sa
from .c01 import error_singletons


def run(model, res, tier):
    c = ctxmod.get(model)
    res.explanation = (
        'LEFT, RIGHT and MID are abstractly interpreted with the counts as integer linear forms and the text symbolic. R1: every slice '
        'bound that is such a form is, over all integers the guards of the trace allow, either always >= 0 (counted from the start) or '
        'always <= -1 (counted from the end) - a bound that can cross or touch zero silently changes meaning (text[-0:] is the whole '
        'text; len(text)-n wraps when n > len). R2: negative counts, a start below 1 and non-text give the #VALUE! singleton. R3: '
        'SUBSTITUTE - no trace that returns the text unchanged has tested the replacement text; with an empty or blank replacement the '
        'result is still text.replace(old, ...). R4: CONCATENATE and TEXTJOIN join all flattened items in order for flat, nested and '
        'deep argument shapes (element values symbolic); TEXTJOIN skips blanks exactly when asked and keeps them as empty text '
        'otherwise. R5: slice shapes LEFT=text[:n], RIGHT=text[-n:] (or empty for 0), MID=text[s-1:][:n]. R6: UPPER/LOWER/PROPER/LEN/'
        'CHAR/CODE delegate to the string operation of that name. R7: no cache/shared state. Idempotence and the other value-level '
        'identities are NOT decided; the k-th occurrence scan of SUBSTITUTE is not decided.')
    res.rule('R1', 'slice bounds never cross or touch zero')
    res.rule('R2', 'negative counts / start < 1 / non-text give #VALUE!')
    res.rule('R3', 'SUBSTITUTE: the unchanged exit does not depend on the replacement')
    res.rule('R4', 'joins cover all flattened items in order; TEXTJOIN blank handling')
    res.rule('R5', 'slice shapes of LEFT / RIGHT / MID')
    res.rule('R6', 'case / length / character functions delegate to the right string operation')
    res.rule('R7', 'no cache or shared state')
    res.rule('R8', '& and LEN/CONCATENATE agree on the text of a number (LEN(a&b) = LEN(a)+LEN(b) for numeric operands too)')
    res.rule('R10', 'SUBSTITUTE with an instance number, when written on str.find()/str.split(): the scan starts at the beginning of the text '
             'and advances by 1..len(old) from the previous hit; the text has one piece more than it has occurrences (instance numbers 1..3)')
    res.rule('R9', 'a position obtained from str.find()/rfind() is tested for "not found" before it is used as a slice bound or index')
    res.trusted += ['hxsa abstract interpreter with integer linear forms', 'CPython ast']
    em, singles = error_singletons(model)
    E = dict((msg, n) for n, msg in singles.items())
    H.safely(res, 'R1', 'slices', _slices, model, res, E)
    H.safely(res, 'R1', 'substitute', _substitute, model, res)
    H.safely(res, 'R1', 'joins', _joins, model, res, E)
    H.safely(res, 'R1', 'delegation', _delegation, model, res)
    H.safely(res, 'R1', 'text_of_number', _text_of_number, model, res)
    H.safely(res, 'R1', 'clean_filter', _clean_filter, model, res)
    H.safely(res, 'R6', 'trim', _trim, model, res)
    H.safely(res, 'R6', 'clean codes', _clean_codes, model, res)
    keys = []
    for n in ('LEFT', 'RIGHT', 'MID', 'SUBSTITUTE', 'CONCATENATE', 'TEXTJOIN', 'UPPER', 'LOWER', 'PROPER', 'TRIM', 'CLEAN', 'LEN', 'CHAR', 'CODE'):
        m, f = model.registered(n)
        keys.append((m.name, m.qualname_of(f)))
    region = c.cg.reachable(keys)
    H.safely(res, 'R1', 'unchecked_positions', _unchecked_positions, model, res, c, region)
    H.safely(res, 'R10', 'SUBSTITUTE', _kth_occurrence, model, res)
    res.rule('RX', 'where a function answers "an error rather than a value" by raising, the catch-all of parse() turns every exception class into #ERROR! (shared with C01.R1)')
    from . import c01 as _c01
    H.borrow(res, 'RX', 'catch-all of parse()', lambda tmp: _c01.catch_all_rule(model, tmp, c))
    res.rule('R11', 'a text literal is the text that was written: the formula is not transformed as a whole (case mapping, translate, replace, regex substitution, normalisation) in front of the lexer (shared with C05.R9)')
    from . import c05 as _c05
    H.borrow(res, 'R11', 'formula text', lambda tmp: _c05.literal_text_rule(model, tmp, c, 'R11', 'a text argument written as a literal'))
    res.rule('R12', 'the operands of & are joined as the texts they are: text verbatim (numeric-looking text keeps its spelling), numbers as '
             'str() of the number (shared with C06.R7) - LEN(a&b) = LEN(a)+LEN(b) depends on it')

    def _amp(tmp):
        from . import c06
        from .. import roles as _roles
        g_ = c.grammar
        c06._concat(model, tmp, c, g_, _roles.binary_actions(g_), H.date_opaque(model))
    H.borrow(res, 'R12', 'operands of &', _amp)
    purity.check_region(res, c, 'R7', None, region, 'a text function')
    purity.check_memo(res, c, 'R7', region, 'a text function')


def _runs(model, name, make_args, flags=None):
    return H.run_function(model, H.registry_func(model, name), make_args, flags=flags)


def _slices(model, res, E):
    cases = [
        ('LEFT', lambda: [Sym('str', 'T'), Aff(1, 0, 'int', 'n')], 'count n'),
        ('RIGHT', lambda: [Sym('str', 'T'), Aff(1, 0, 'int', 'n')], 'count n'),
        ('MID', lambda: [Sym('str', 'T'), Aff(1, 0, 'int', 's'), Aff(1, 0, 'int', 'n')], 'start s, count n'),
    ]
    n_b = 0
    for name, mk, label in cases:
        m, f = model.registered(name)
        try:
            outs = _runs(model, name, mk, flags={'len_as_variable': True})
        except Unmodelled as e:
            res.ob('R1', name, label, True, 'undecided: %s' % e)
            res.notes.append('C15.R1 %s: %s' % (name, e))
            continue
        for o in outs:
            for ev in o.events:
                if ev[0] != 'slice':
                    continue
                _, base, lo, hi, notes = ev
                box, multi = H.box_of(notes)
                for which, b in (('lower', lo), ('upper', hi)):
                    if not isinstance(b, Aff):
                        continue
                    n_b += 1
                    if multi:
                        res.ob('R1', name, {'bound': repr(b)}, True, 'undecided (relation between two variables on the trace)')
                        continue
                    mn, mx = H.int_min(b, box), H.int_max(b, box)
                    ok = (mn is not None and mn >= 0) or (mx is not None and mx <= -1)
                    res.ob('R1', name, {'bound': which, 'expr': repr(b), 'min': None if mn is None else int(mn), 'max': None if mx is None else int(mx)}, ok)
                    if not ok:
                        why = []
                        if mx is not None and mx == 0 and (mn is None or mn < 0):
                            why.append('it is meant to count from the end but can be 0, and text[-0:] is the whole text (a count of zero returns '
                                       'everything instead of nothing)')
                        else:
                            why.append('it can be negative (%s) as well as non-negative: a negative bound silently counts from the other end'
                                       % ('unbounded below' if mn is None else 'down to %d' % int(mn)))
                        res.violation('R1', 'function:%s:slice-bound' % name, m.where(f),
                                      '%s: the %s slice bound %s is not sign-definite on a path: %s' % (name, which, _fmt(b), why[0]),
                                      case={'bound': which, 'expr': repr(b)}, func=f.name)
            # R5 shapes on value-returning traces
            if o.kind == 'return' and not o.imprecise and isinstance(o.value, (Atom, Const)) and o.value.tag == 'str':
                ok5, why5 = _shape_ok(name, o.value)
                res.ob('R5', name, {'result': repr(o.value)[:80]}, ok5, why5)
                if not ok5:
                    res.violation('R5', 'function:%s:slice-shape' % name, m.where(f),
                                  '%s must be %s; a trace returns %r' % (name, {'LEFT': 'text[:n]', 'RIGHT': 'text[-n:] (empty for n = 0)',
                                                                               'MID': 'text[s-1:][:n]'}[name], o.value), func=f.name)
    res.floor('slice bounds examined', n_b, 3)
    # R2
    VALUE = E['#VALUE!']
    tests = [
        ('LEFT', lambda: [Sym('str', 'T'), Const(-1)], 'negative count'),
        ('RIGHT', lambda: [Sym('str', 'T'), Const(-1)], 'negative count'),
        ('MID', lambda: [Sym('str', 'T'), Const(1), Const(-1)], 'negative count'),
        ('MID', lambda: [Sym('str', 'T'), Const(0), Const(2)], 'start 0'),
        # a count between -1 and 0 is negative too (a coercion that truncates before the sign test lets it through as 0)
        ('LEFT', lambda: [Sym('str', 'T'), Const(-0.5)], 'negative fractional count'),
        ('RIGHT', lambda: [Sym('str', 'T'), Const(-0.5)], 'negative fractional count'),
        ('MID', lambda: [Sym('str', 'T'), Const(1), Const(-0.5)], 'negative fractional count'),
        ('LEFT', lambda: [Sym('int', 'X'), Const(1)], 'non-text'),
        ('RIGHT', lambda: [Sym('int', 'X'), Const(1)], 'non-text'),
        ('MID', lambda: [Sym('int', 'X'), Const(1), Const(1)], 'non-text'),
    ]
    for name, mk, label in tests:
        m, f = model.registered(name)
        outs = _runs(model, name, mk)
        bad = [o for o in outs if not (o.kind == 'return' and isinstance(o.value, Err) and o.value.name == VALUE)]
        res.ob('R2', name, label, not bad, H.describe(outs))
        if bad:
            res.violation('R2', 'function:%s:%s' % (name, label.replace(' ', '-')), m.where(f),
                          '%s with %s must give #VALUE!; got %s' % (name, label, '; '.join(H.describe(bad))), func=f.name)
    # zero count: empty text
    for name, mk in (('LEFT', lambda: [Sym('str', 'T'), Const(0)]), ('RIGHT', lambda: [Sym('str', 'T'), Const(0)]),
                     ('MID', lambda: [Sym('str', 'T'), Const(1), Const(0)])):
        m, f = model.registered(name)
        outs = _runs(model, name, mk)

        def empty(v):
            if isinstance(v, Const):
                return v.value == ''
            # text[:0]  /  text[0:][:0]
            return isinstance(v, Atom) and v.op == 'slice' and isinstance(v.args[2], Const) and v.args[2].value == 0
        bad = [o for o in outs if not (o.kind == 'return' and empty(o.value))]
        res.ob('R2', name, 'count 0 gives empty text', not bad, H.describe(outs))
        if bad:
            res.violation('R2', 'function:%s:zero-count' % name, m.where(f),
                          '%s with a count of 0 must give empty text; got %s' % (name, '; '.join(H.describe(bad))), func=f.name)


def _fmt(b):
    terms = ''.join('%+g*%s' % (float(cf), v) for v, cf in sorted(b.coeffs.items()))
    return '%s%s' % (terms, ('%+g' % float(b.const)) if b.const else '')


def _is_aff(v, coeffs, const):
    return isinstance(v, Aff) and dict((a, int(b)) for a, b in v.coeffs.items()) == coeffs and v.const == const


def _none(v):
    return v is None or (isinstance(v, Const) and v.value is None)


def _shape_ok(name, v):
    if isinstance(v, Const):
        return v.value == '', 'constant %r' % (v.value,)
    if not (isinstance(v, Atom) and v.op == 'slice'):
        return False, 'not a slice'
    base, lo, hi, st = v.args
    if name == 'LEFT':
        ok = isinstance(base, Sym) and base.name == 'T' and (_none(lo) or (isinstance(lo, Const) and lo.value == 0)) and _is_aff(hi, {'n': 1}, 0) and _none(st)
        return ok, 'text[%r:%r]' % (lo, hi)
    if name == 'RIGHT':
        ok = isinstance(base, Sym) and base.name == 'T' and _is_aff(lo, {'n': -1}, 0) and _none(hi) and _none(st)
        return ok, 'text[%r:%r]' % (lo, hi)
    if name == 'MID':
        # text[s-1:][:n]   or   text[s-1:s-1+n]
        if isinstance(base, Atom) and base.op == 'slice':
            b2, lo2, hi2, st2 = base.args
            ok = isinstance(b2, Sym) and b2.name == 'T' and _is_aff(lo2, {'s': 1}, -1) and _none(hi2) and _none(lo) and _is_aff(hi, {'n': 1}, 0)
            return ok, 'text[%r:%r][%r:%r]' % (lo2, hi2, lo, hi)
        ok = isinstance(base, Sym) and base.name == 'T' and _is_aff(lo, {'s': 1}, -1) and _is_aff(hi, {'s': 1, 'n': 1}, -1)
        return ok, 'text[%r:%r]' % (lo, hi)
    return True, ''


def _mentions(v, name):
    if isinstance(v, Sym):
        return v.name == name
    if isinstance(v, Atom):
        return any(_mentions(a, name) for a in v.args)
    return False


def _substitute(model, res):
    m, f = model.registered('SUBSTITUTE')
    try:
        outs = _runs(model, 'SUBSTITUTE', lambda: [Sym('str', 'T'), Sym('str', 'O'), Sym('str', 'N')])
    except Unmodelled as e:
        res.ob('R3', 'SUBSTITUTE', 'undecided', True, str(e))
        return
    n = 0
    for o in outs:
        if o.imprecise:
            continue
        n += 1
        if o.kind == 'return' and isinstance(o.value, Sym) and o.value.name == 'T':
            dep = [t for (t, alt, s) in o.notes if s is not None and not isinstance(s, tuple) and _mentions(s, 'N')]
            ok = not dep
            res.ob('R3', 'SUBSTITUTE', {'returns': 'text unchanged', 'decisions': [t for (t, a, s) in o.notes]}, ok)
            if not ok:
                res.violation('R3', 'function:SUBSTITUTE:unchanged-exit', m.where(f),
                              'SUBSTITUTE returns the text unchanged on a path that tested the replacement text (%s): replacing by empty '
                              'text leaves the text as it was instead of deleting the occurrences' % dep[0], func=f.name)
        elif o.kind == 'return':
            v = o.value
            ok = isinstance(v, Atom) and v.op == 'replace' and [getattr(a, 'name', None) for a in v.args] == ['T', 'O', 'N']
            if not ok and isinstance(v, Atom) and v.op == 're.sub' and len(v.args) == 3:
                pat, repl, subj = v.args
                lit = isinstance(pat, Atom) and pat.op == 're.escape' and getattr(pat.args[0], 'name', None) == 'O'
                if lit and getattr(subj, 'name', None) == 'T' and getattr(repl, 'name', None) == 'N':
                    res.ob('R3', 'SUBSTITUTE', {'returns': repr(v)[:60]}, False, 'the replacement text is used as a regex template')
                    res.violation('R3', 'function:SUBSTITUTE:replacement-template', m.where(f),
                                  'SUBSTITUTE replaces through a regular expression and passes the new text as the replacement *template* (%r): '
                                  'a backslash in the new text is interpreted (\\n, \\1, \\g<0>) or rejected instead of being inserted as written'
                                  % (v,), func=f.name)
                    continue
                if lit and getattr(subj, 'name', None) == 'T' and isinstance(repl, Func):
                    ok = True       # a callable replacement inserts its result literally
            res.ob('R3', 'SUBSTITUTE', {'returns': repr(v)[:60]}, ok)
            if not ok:
                res.violation('R3', 'function:SUBSTITUTE:replace-all', m.where(f),
                              'without an instance number SUBSTITUTE must be text.replace(old, new); a trace returns %r' % (v,), func=f.name)
    res.soft_floor('SUBSTITUTE traces', n, 2)
    for label, newv in (('empty replacement', Const('')), ('blank replacement', Const(None))):
        outs = _runs(model, 'SUBSTITUTE', lambda newv=newv: [Sym('str', 'T'), Sym('str', 'O'), newv])
        for o in outs:
            if o.imprecise:
                continue
            dec_true = dict((getattr(s, 'name', None), alt) for (t, alt, s) in o.notes if isinstance(s, Sym))
            if dec_true.get('T') is False or dec_true.get('O') is False:
                continue        # empty text / empty old text: unchanged is right
            v = o.value
            ok = o.kind == 'return' and isinstance(v, Atom) and v.op == 'replace' and isinstance(v.args[0], Sym) and v.args[0].name == 'T' and \
                isinstance(v.args[1], Sym) and v.args[1].name == 'O' and isinstance(v.args[2], Const) and v.args[2].value == ''
            if not ok and o.kind == 'return' and isinstance(v, Atom) and v.op == 're.sub' and len(v.args) == 3:
                # the same deletion through a regular expression that matches the old text literally
                pat, repl, subj = v.args
                ok = isinstance(pat, Atom) and pat.op == 're.escape' and getattr(pat.args[0], 'name', None) == 'O' and \
                    isinstance(repl, Const) and repl.value == '' and getattr(subj, 'name', None) == 'T'
            res.ob('R3', 'SUBSTITUTE', {'case': label}, ok, repr(o))
            if not ok:
                res.violation('R3', 'function:SUBSTITUTE:%s' % label.replace(' ', '-'), m.where(f),
                              'SUBSTITUTE(text, old, %s) must delete every occurrence (text.replace(old, "")); got %r' % (label, o), func=f.name)


def _joins(model, res, E):
    def leaves(prefix):
        return [Sym('str', prefix + str(i)) for i in range(4)]
    shapes = {
        'flat': lambda L: L,
        'array in the middle': lambda L: [L[0], ListV([L[1], L[2]]), L[3]],
        'nested arrays': lambda L: [ListV([L[0], ListV([L[1]])]), ListV([ListV([L[2]]), L[3]])],
        'array first': lambda L: [ListV([L[0], L[1]]), L[2], L[3]],
        # a host (range callback, variable) may hand rows over as tuples: the flattener's entry test accepts them, so every level must
        'tuple row among scalars': lambda L: [L[0], ListV([L[1], L[2]], 'tuple'), L[3]],
        'tuple of tuples': lambda L: [ListV([ListV([L[0], L[1]], 'tuple'), ListV([L[2], L[3]], 'tuple')], 'tuple')],
    }
    for name in ('CONCATENATE', 'TEXTJOIN'):
        m, f = model.registered(name)
        for sname, shape in sorted(shapes.items()):
            def mk(shape=shape, name=name):
                items = shape(leaves('a'))
                return items if name == 'CONCATENATE' else [Sym('str', 'D'), Const(True)] + items
            try:
                outs = _runs(model, name, mk)
            except Unmodelled as e:
                res.ob('R4', name, sname, True, 'undecided: %s' % e)
                continue
            for o in outs:
                if o.imprecise:
                    continue
                v = o.value
                ok = o.kind == 'return' and isinstance(v, Atom) and v.op == 'join'
                if ok:
                    sep, items = v.args[0], v.args[1:]
                    ok = [getattr(i, 'name', repr(i)) for i in items] == ['a0', 'a1', 'a2', 'a3']
                    if name == 'CONCATENATE':
                        ok = ok and isinstance(sep, Const) and sep.value == ''
                    else:
                        ok = ok and isinstance(sep, Sym) and sep.name == 'D'
                res.ob('R4', name, {'shape': sname}, ok, repr(o)[:120])
                if not ok:
                    res.violation('R4', 'function:%s:join-order' % name, m.where(f),
                                  '%s over the argument shape "%s" must join a0,a1,a2,a3 in that order; got %r' % (name, sname, o), case=sname, func=f.name)
    # non-text items of CONCATENATE are converted with str(); an error item becomes the result
    m, f = model.registered('CONCATENATE')
    outs = _runs(model, 'CONCATENATE', lambda: [Sym('str', 'a'), Sym('int', 'n')])
    for o in outs:
        v = o.value
        ok = o.kind == 'return' and isinstance(v, Atom) and v.op == 'join' and len(v.args) == 3 and getattr(v.args[1], 'name', None) == 'a' and \
            isinstance(v.args[2], Atom) and v.args[2].op == 'str' and getattr(v.args[2].args[0], 'name', None) == 'n'
        res.ob('R4', 'CONCATENATE', 'number item joined as str(n)', ok, repr(o))
        if not ok:
            res.violation('R4', 'function:CONCATENATE:number-item', m.where(f), 'a number item must be joined as its str(); got %r' % (o,), func=f.name)
    # TEXTJOIN blanks
    m, f = model.registered('TEXTJOIN')
    for ignore, want in ((True, ['a', 'b']), (False, ['a', "''", 'b'])):
        outs = _runs(model, 'TEXTJOIN', lambda ignore=ignore: [Sym('str', 'D'), Const(ignore), Sym('str', 'a'), Const(None), Sym('str', 'b')])
        for o in outs:
            v = o.value
            got = None
            if o.kind == 'return' and isinstance(v, Atom) and v.op == 'join':
                got = [getattr(i, 'name', repr(i)) for i in v.args[1:]]
            ok = got == want
            res.ob('R4', 'TEXTJOIN', {'ignore_empty': ignore, 'items': 'a, blank, b'}, ok, repr(got))
            if not ok:
                res.violation('R4', 'function:TEXTJOIN:blanks', m.where(f),
                              'TEXTJOIN(delim, %s, a, blank, b) must join %s; got %s' % (ignore, want, got if got is not None else o), func=f.name)
    outs = _runs(model, 'TEXTJOIN', lambda: [Sym('str', 'D'), Const(True), Sym('str', 'a'), Const(''), Sym('str', 'b')])
    for o in outs:
        v = o.value
        got = [getattr(i, 'name', repr(i)) for i in v.args[1:]] if (o.kind == 'return' and isinstance(v, Atom) and v.op == 'join') else None
        ok = got == ['a', "''", 'b']
        res.ob('R4', 'TEXTJOIN', {'ignore_empty': True, 'items': 'a, empty text, b'}, ok, repr(got))
        if not ok:
            res.violation('R4', 'function:TEXTJOIN:empty-text', m.where(f),
                          'only blanks are skipped: an empty text item stays (a, \'\', b); got %s' % (got if got is not None else o), func=f.name)
    outs = _runs(model, 'TEXTJOIN', lambda: [Sym('int', 'D'), Const(True), Sym('str', 'a')])
    bad = [o for o in outs if not (o.kind == 'return' and isinstance(o.value, Err) and o.value.name == E['#VALUE!'])]
    res.ob('R4', 'TEXTJOIN', 'non-text delimiter gives #VALUE!', not bad, H.describe(outs))


TRIM_TABLE = (
    # text, TRIM(text): leading / trailing spaces go, runs of spaces between words become one space - and nothing else changes
    ('  a   b  ', 'a b'), ('a b', 'a b'), ('', ''), ('    ', ''), (' a', 'a'), ('a  ', 'a'), ('a  b   c', 'a b c'),
    # tabs, line breaks and no-break spaces are not spaces
    ('a\tb', 'a\tb'), ('a \t b', 'a \t b'), ('a\n\nb', 'a\n\nb'), ('\ta', '\ta'), ('a\n', 'a\n'), (' \ta\t ', '\ta\t'),
    ('\xa0a\xa0', '\xa0a\xa0'), ('a\xa0\xa0b', 'a\xa0\xa0b'), ('a\u2003b', 'a\u2003b'),
)
WHITESPACE_CLASS_CALLS = ('strip', 'lstrip', 'rstrip', 'split', 'rsplit')


def _trim(model, res):
    """R6 (TRIM): only the space character is surplus.  Decided on a table of constant texts (folding of pure text / re functions on
    constants in the interpreter); the construct named in the report is the whitespace-class operation found in TRIM's code."""
    m, f = model.registered('TRIM')
    # operations on the whole whitespace class: strip() / split() without an argument, \s in a pattern
    suspects = []
    for g in [f] + [h for q, h in m.functions.items() if '.' not in q and any(
            isinstance(x, ast.Call) and isinstance(x.func, ast.Name) and x.func.id == q for x in ast.walk(f))]:
        for x in ast.walk(g):
            if isinstance(x, ast.Call) and isinstance(x.func, ast.Attribute) and x.func.attr in WHITESPACE_CLASS_CALLS and not x.args and not x.keywords:
                suspects.append((x, '%s() without an argument works on every whitespace character' % x.func.attr))
            if isinstance(x, ast.Constant) and isinstance(x.value, str) and '\\s' in x.value:
                suspects.append((x, 'the pattern %r matches every whitespace character' % x.value))
    n = 0
    for text, want in TRIM_TABLE:
        try:
            outs = _runs(model, 'TRIM', lambda: [Const(text)])
        except Unmodelled as e:
            res.ob('R6', 'TRIM', {'text': text}, True, 'undecided: %s' % e)
            continue
        if len(outs) != 1 or outs[0].imprecise or outs[0].kind != 'return' or not isinstance(outs[0].value, Const):
            res.ob('R6', 'TRIM', {'text': text}, True, 'undecided: %s' % '; '.join(H.describe(outs))[:100])
            continue
        got = outs[0].value.value
        n += 1
        res.ob('R6', 'TRIM', {'text': text, 'result': got}, got == want)
        if got != want:
            node, why = suspects[0] if suspects else (f, 'no whitespace-class operation recognised')
            res.violation('R6', 'function:TRIM:only-spaces', m.where(node),
                          'TRIM(%r) gives %r; TRIM removes leading and trailing spaces and squeezes runs of spaces to one - a tab, a line break or a '
                          'no-break space is not a space, so the result must be %r (%s)' % (text, got, want, why), func=f.name)
    res.soft_floor('TRIM table rows decided', n, 12)


def _delegation(model, res):
    table = {'UPPER': 'upper', 'LOWER': 'lower', 'PROPER': 'title'}
    for name, op in sorted(table.items()):
        m, f = model.registered(name)
        outs = _runs(model, name, lambda: [Sym('str', 'T')])
        ok = len(outs) == 1 and outs[0].kind == 'return' and isinstance(outs[0].value, Atom) and outs[0].value.op == op and \
            getattr(outs[0].value.args[0], 'name', None) == 'T' and len(outs[0].value.args) == 1
        res.ob('R6', name, 'text.%s()' % op, ok, H.describe(outs))
        if not ok:
            res.violation('R6', 'function:%s:delegation' % name, m.where(f), '%s(text) must be text.%s(); got %s' % (name, op, '; '.join(H.describe(outs))), func=f.name)
        outs = _runs(model, name, lambda: [Sym('err', 'E')])
        ok = all(o.kind == 'return' and isinstance(o.value, Sym) and o.value.name == 'E' for o in outs)
        res.ob('R6', name, 'an error argument is returned', ok, H.describe(outs))
        if not ok:
            res.violation('R6', 'function:%s:error-argument' % name, m.where(f), '%s of an error value must be that error; got %s' % (name, '; '.join(H.describe(outs))), func=f.name)
    m, f = model.registered('LEN')
    outs = _runs(model, 'LEN', lambda: [Sym('str', 'T')])
    ok = len(outs) == 1 and outs[0].kind == 'return' and isinstance(outs[0].value, Atom) and outs[0].value.op == 'len' and getattr(outs[0].value.args[0], 'name', None) == 'T'
    res.ob('R6', 'LEN', 'len(text)', ok, H.describe(outs))
    if not ok:
        res.violation('R6', 'function:LEN:delegation', m.where(f), 'LEN(text) must be len(text); got %s' % '; '.join(H.describe(outs)), func=f.name)
    outs = _runs(model, 'LEN', lambda: [Const(None)])
    ok = all(o.kind == 'return' and isinstance(o.value, Const) and o.value.value == 0 for o in outs)
    res.ob('R6', 'LEN', 'LEN(blank) = 0', ok, H.describe(outs))
    m, f = model.registered('CHAR')
    outs = _runs(model, 'CHAR', lambda: [Sym('int', 'n')])
    ok = len(outs) == 1 and outs[0].kind == 'return' and isinstance(outs[0].value, Atom) and outs[0].value.op == 'chr' and getattr(outs[0].value.args[0], 'name', None) == 'n'
    res.ob('R6', 'CHAR', 'chr(n)', ok, H.describe(outs))
    if not ok:
        res.violation('R6', 'function:CHAR:delegation', m.where(f), 'CHAR(n) must be chr(n); got %s' % '; '.join(H.describe(outs)), func=f.name)
    m, f = model.registered('CODE')
    outs = _runs(model, 'CODE', lambda: [Sym('str', 'c')])
    ok = len(outs) == 1 and outs[0].kind == 'return' and isinstance(outs[0].value, Atom) and outs[0].value.op == 'ord' and getattr(outs[0].value.args[0], 'name', None) == 'c'
    res.ob('R6', 'CODE', 'ord(c)', ok, H.describe(outs))
    if not ok:
        res.violation('R6', 'function:CODE:delegation', m.where(f), 'CODE(c) must be ord(c); got %s' % '; '.join(H.describe(outs)), func=f.name)


def _clean_filter(model, res):
    """CLEAN keeps a character exactly when it is not a control character (code > 31): the filter is read off the source."""
    m, f = model.registered('CLEAN')
    tests = []
    for n in ast.walk(f):
        if isinstance(n, ast.comprehension) and n.ifs and isinstance(n.target, ast.Name):
            tests.append((n.target.id, n.ifs))
    if not tests:
        res.ob('R6', 'CLEAN', 'character filter', True, 'undecided: no character filter recognised')
        return
    for var, ifs in tests:
        for t in ifs:
            verdict = None
            if isinstance(t, ast.Compare) and len(t.ops) == 1:
                l, r, op = t.left, t.comparators[0], t.ops[0]
                is_ord = isinstance(l, ast.Call) and sa.call_name(l) == 'ord' and len(l.args) == 1 and isinstance(l.args[0], ast.Name) and l.args[0].id == var
                if is_ord and isinstance(r, ast.Constant) and isinstance(r.value, int):
                    verdict = (isinstance(op, ast.Gt) and r.value == 31) or (isinstance(op, ast.GtE) and r.value == 32)
                elif isinstance(l, ast.Name) and l.id == var and isinstance(r, ast.Constant) and isinstance(r.value, str) and len(r.value) == 1:
                    verdict = (isinstance(op, ast.Gt) and ord(r.value) == 31) or (isinstance(op, ast.GtE) and ord(r.value) == 32)
            elif isinstance(t, ast.Call) and isinstance(t.func, ast.Attribute) and isinstance(t.func.value, ast.Name) and t.func.value.id == var \
                    and t.func.attr.startswith('is'):
                verdict = False         # a unicode character-class predicate is not "code > 31"
            elif isinstance(t, ast.UnaryOp) and isinstance(t.op, ast.Not) and isinstance(t.operand, ast.Call) and \
                    isinstance(t.operand.func, ast.Attribute) and t.operand.func.attr.startswith('is'):
                verdict = False
            res.ob('R6', 'CLEAN', 'keeps exactly the characters with code > 31: %s' % src(t), verdict is not False,
                   'undecided' if verdict is None else '')
            if verdict is False:
                res.violation('R6', 'function:CLEAN:filter', m.where(t),
                              'CLEAN keeps a character when %s: CLEAN removes the control characters (codes 0-31) and nothing else - this test '
                              'also drops or keeps other characters (e.g. no-break spaces, format characters)' % src(t), func=f.name)


CLEAN_CODES = tuple(range(0, 40)) + (127, 133, 160, 173, 0x200d, 0x3000, 0xe9)


def _clean_codes(model, res):
    """R6 (CLEAN, code by code): every character is run through CLEAN on its own - inside the interpreter, on a constant - and is dropped
    exactly when its code is 0..31.  Decides filters the syntactic reading above does not recognise (a table of codes, a range, a set)."""
    m, f = model.registered('CLEAN')
    n = 0
    wrong = []
    for code in CLEAN_CODES:
        ch = chr(code)
        try:
            outs = _runs(model, 'CLEAN', lambda: [Const('a' + ch + 'b')])
        except Unmodelled as e:
            res.ob('R6', 'CLEAN', {'code': code}, True, 'undecided: %s' % e)
            continue
        if len(outs) != 1 or outs[0].imprecise or outs[0].kind != 'return' or not isinstance(outs[0].value, Const):
            res.ob('R6', 'CLEAN', {'code': code}, True, 'undecided')
            continue
        n += 1
        want = 'ab' if code <= 31 else 'a' + ch + 'b'
        if outs[0].value.value != want:
            wrong.append((code, outs[0].value.value))
    res.ob('R6', 'CLEAN', '%d character codes: dropped exactly when 0 <= code <= 31' % n, not wrong, repr(wrong[:4]))
    if wrong:
        code, got = wrong[0]
        res.violation('R6', 'function:CLEAN:codes', m.where(f),
                      'CLEAN("a" & CHAR(%d) & "b") gives %r: CLEAN removes the control characters (codes 0-31) and nothing else; wrong for the codes %s'
                      % (code, got, [c_ for c_, _ in wrong][:8]), case={'code': code}, func=f.name)
    res.soft_floor('CLEAN codes decided', n, 30)


def _text_of_number(model, res):
    """The text a number contributes to a & b is the text LEN and CONCATENATE see: the same conversion of the same operand."""
    from .. import roles, ctx as ctxmod
    from . import c06
    c = ctxmod.get(model)
    g = c.grammar
    acts = roles.binary_actions(g)
    m, f = acts['concat']

    def conv_in(v, name):
        """the sub-expression of v that carries operand ``name`` (a Sym or an atom over it), at the top level of concat/len/join"""
        if isinstance(v, Atom) and v.op in ('concat', 'len', 'join'):
            for a in v.args:
                r = conv_in(a, name)
                if r is not None:
                    return r
            return None
        if name in repr(v):
            return v
        return None
    for tag in ('float', 'int', 'bool'):
        try:
            amp = c07_run(model, g, acts, tag)
            ln = _runs(model, 'LEN', lambda: [Sym(tag, 'F')])
            cc = _runs(model, 'CONCATENATE', lambda: [Sym(tag, 'F'), Sym('str', 'T')])
        except Unmodelled as e:
            res.ob('R8', '& / LEN / CONCATENATE', {'operand': tag}, True, 'undecided: %s' % e)
            continue
        if any(o.imprecise for o in amp + ln + cc):
            res.ob('R8', '& / LEN / CONCATENATE', {'operand': tag}, True, 'undecided (unmodelled construct)')
            continue
        convs = {}
        for label, outs in (('&', amp), ('LEN', ln), ('CONCATENATE', cc)):
            got = set()
            for o in outs:
                if o.kind != 'return' or o.value.tag == 'err':
                    continue
                cv = conv_in(o.value, 'F:')
                got.add(repr(cv))
            convs[label] = got
        ok = len(convs['&']) == 1 and convs['&'] == convs['LEN'] == convs['CONCATENATE']
        res.ob('R8', '& / LEN / CONCATENATE', {'operand': tag}, ok, repr(convs))
        if not ok:
            res.violation('R8', 'concat:text-of-number:%s' % tag, m.where(f),
                          'the text of a %s operand differs between & (%s), LEN (%s) and CONCATENATE (%s): LEN(a&b) = LEN(a)+LEN(b) fails for such an '
                          'operand (e.g. a whole-valued float)' % (tag, sorted(convs['&']), sorted(convs['LEN']), sorted(convs['CONCATENATE'])),
                          case={'operand': tag}, func=f.name)


def c07_run(model, g, acts, tag):
    from . import c07
    from .. import roles
    lex = roles.operator_lexemes(g, ['AMP'])
    return c07.run_action(model, g, acts, 'concat', lambda: [Sym(tag, 'F'), Const(lex['AMP']), Sym('str', 'T')], H.date_opaque(model))


# ---------------------------------------------------------------------------------------------------
# R9: the "not found" sentinel of str.find()/rfind() (-1) must not reach a slice bound or index unchecked: text[:-1] is a
# valid slice, so an unchecked -1 silently rewrites the text where it must stay unchanged (SUBSTITUTE with no k-th occurrence)

def _find_call(node):
    return isinstance(node, ast.Call) and isinstance(node.func, ast.Attribute) and node.func.attr in ('find', 'rfind')


def unchecked_find_uses(func):
    """[(variable, use node, assignment node)] over the acyclic paths of ``func`` (loops: zero and one iteration): the variable was
    last bound to a find()/rfind() result, no branch test since then mentions it, and it occurs in a slice bound or index."""
    from ..paths import function_paths, TooManyPaths
    try:
        paths = function_paths(func)
    except TooManyPaths:
        return None
    found = {}

    def names_in(node):
        return set(x.id for x in ast.walk(node) if isinstance(x, ast.Name))

    def scan(node, state, is_test):
        # evaluation order inside one statement / test: sub-expressions left to right; a walrus binds, a subscript uses
        for sub in _ordered(node):
            if isinstance(sub, ast.Subscript):
                for nm in names_in(sub.slice):
                    if state.get(nm, (None,))[0] == 'unchecked':
                        found.setdefault((nm, id(sub)), (nm, sub, state[nm][1]))
            if isinstance(sub, ast.NamedExpr):
                state[sub.target.id] = ('unchecked', sub) if _find_call(sub.value) else (None, None)
            if isinstance(sub, ast.Compare):
                for nm in names_in(sub):
                    if nm in state and state[nm][0] == 'unchecked' and (is_test or True):
                        state[nm] = ('checked', state[nm][1])
        if is_test:
            for nm in names_in(node):       # truthiness tests (if pos + 1:) count as a look at the value as well
                if nm in state and state[nm][0] == 'unchecked':
                    state[nm] = ('checked', state[nm][1])

    def _ordered(node):
        out = []

        def go(n):
            for c_ in ast.iter_child_nodes(n):
                if isinstance(c_, (ast.FunctionDef, ast.Lambda, ast.ClassDef)):
                    continue
                go(c_)
            out.append(n)
        go(node)
        return out

    for p in paths:
        state = {}
        for it in p.items:
            if it[0] == 'cond':
                scan(it[1], state, True)
            elif it[0] == 'loop':
                node = it[1]
                if isinstance(node, ast.While):
                    scan(node.test, state, True)
                else:
                    scan(node.iter, state, False)
                    for nm in names_in(node.target):
                        state[nm] = (None, None)
            elif it[0] == 'stmt':
                st = it[1]
                if isinstance(st, ast.Assign):
                    scan(st.value, state, False)
                    for t in st.targets:
                        if isinstance(t, ast.Name):
                            state[t.id] = ('unchecked', st) if _find_call(st.value) else (None, None)
                        else:
                            scan(t, state, False)
                            for nm in (x.id for x in ast.walk(t) if isinstance(x, ast.Name) and isinstance(x.ctx, ast.Store)):
                                state[nm] = (None, None)
                elif isinstance(st, ast.AugAssign):
                    scan(st.value, state, False)
                    if isinstance(st.target, ast.Name):
                        state[st.target.id] = (None, None)
                elif isinstance(st, (ast.Assert,)):
                    scan(st.test, state, True)
                else:
                    scan(st, state, False)
        t = p.terminal
        if t[0] in ('return', 'raise') and t[1] is not None:
            scan(t[1], state, False)
    return sorted(found.values(), key=lambda x: (getattr(x[1], 'lineno', 0), x[0]))


_R9_WITNESS = """
def bad(text, old, new, k):
    start = text.find(old)
    if start < 0:
        return text
    for _ in range(k - 1):
        start = text.find(old, start + 1)
    return text[:start] + new + text[start + len(old):]

def good(text, old, new):
    start = text.find(old)
    if start == -1:
        return text
    return text[:start] + new + text[start + len(old):]
"""


def _unchecked_positions(model, res, c, region):
    # the detector must find the planted example and stay silent on its repaired twin (a rule whose expected count on the
    # tree is zero would otherwise pass vacuously for ever)
    wit = ast.parse(_R9_WITNESS)
    bad = unchecked_find_uses(wit.body[0])
    good = unchecked_find_uses(wit.body[1])
    if not bad or good:
        raise AnalysisError('C15.R9 self-check failed: witness %r, twin %r' % (bad, good))
    n = 0
    for key in sorted(region):
        if key not in c.cg.funcs:
            continue
        m, f = c.cg.funcs[key]
        if not any(_find_call(x) for x in ast.walk(f)):
            continue
        n += 1
        uses = unchecked_find_uses(f)
        if uses is None:
            res.ob('R9', fmt(key), 'find() positions checked before use', True, 'undecided: too many paths')
            continue
        res.ob('R9', fmt(key), 'find() positions checked before use', not uses, '; '.join('%s in %s' % (v, src(u)) for v, u, a in uses))
        for v, u, a in uses:
            res.violation('R9', '%s:%s:unchecked-find:%s' % (key[0], key[1], v), m.where(u),
                          '%s holds the result of %s, which is -1 when nothing is found, and reaches the slice %s on a path with no test of it '
                          'in between: -1 is a valid bound (one before the end), so the text is silently rewritten where it must come back '
                          'unchanged (no such occurrence)' % (v, src(a.value if hasattr(a, 'value') else a)[:60], src(u)[:60]), func=key[1])
    res.analysed['text functions using find()/rfind()'] = n


# ---------------------------------------------------------------------------------------------------
# R10: the k-th occurrence through find() / split()  (instance numbers 1..3, text / old / new symbolic)

def _terms(v):
    yield v
    if isinstance(v, Atom):
        for a in v.args:
            for x in _terms(a):
                yield x


def _is_zero(v):
    if isinstance(v, Const):
        return v.value == 0 and not isinstance(v.value, bool)
    return isinstance(v, Aff) and not v.coeffs and v.const == 0


SUBSTITUTE_TABLE = (
    # text, old, new, instance number, result: the k-th occurrence counted from the left; an instance number that is a whole-valued
    # float (the result of 4/2) counts like the integer; no such occurrence leaves the text unchanged
    ('a-b-c-d', '-', '+', 1, 'a+b-c-d'), ('a-b-c-d', '-', '+', 2, 'a-b+c-d'), ('a-b-c-d', '-', '+', 3, 'a-b-c+d'),
    ('a-b-c-d', '-', '+', 4, 'a-b-c-d'), ('a-b-c-d', '-', '+', 2.0, 'a-b+c-d'), ('a-b-c-d', '-', '+', 3.0, 'a-b-c+d'),
    ('a-b-c-d', '-', '+', 9.0, 'a-b-c-d'), ('-ab-', '-', '', 1, 'ab-'), ('-ab-', '-', '', 2, '-ab'), ('abcabc', 'bc', 'X', 2, 'abcaX'),
    ('abc', 'x', 'y', 1, 'abc'), ('one two one', 'one', '1', 2, 'one two 1'),
)


def _substitute_table(model, res):
    m, f = model.registered('SUBSTITUTE')
    n = 0
    for text, old, new, k_, want in SUBSTITUTE_TABLE:
        case = {'text': text, 'old': old, 'new': new, 'instance': k_}
        try:
            outs = _runs(model, 'SUBSTITUTE', lambda: [Const(text), Const(old), Const(new), Const(k_)])
        except Unmodelled as e:
            res.ob('R10', 'SUBSTITUTE', case, True, 'undecided: %s' % e)
            continue
        if len(outs) != 1 or outs[0].imprecise or not (outs[0].kind == 'raise' or isinstance(outs[0].value, (Const, Err))):
            res.ob('R10', 'SUBSTITUTE', case, True, 'undecided: %s' % '; '.join(H.describe(outs))[:100])
            continue
        o = outs[0]
        n += 1
        ok = o.kind == 'return' and isinstance(o.value, Const) and o.value.value == want
        res.ob('R10', 'SUBSTITUTE', dict(case, result=repr(o.value)), ok)
        if not ok:
            res.violation('R10', 'function:SUBSTITUTE:kth-table', m.where(f),
                          'SUBSTITUTE(%r, %r, %r, %r) %s; replacing only occurrence number %s (counted from the left, a whole-valued float counting '
                          'like the integer) gives %r' % (text, old, new, k_, ('gives %r' % (o.value,)) if o.kind == 'return' else ('raises %r' % (o.value,)),
                                                         int(k_), want), case=case, func=f.name)
    res.soft_floor('SUBSTITUTE table rows decided', n, 8)


def _kth_occurrence(model, res):
    _substitute_table(model, res)
    m, f = model.registered('SUBSTITUTE')
    where = m.where(f)
    n = 0
    for kk in (1, 2, 3):
        outs = _runs(model, 'SUBSTITUTE', lambda: [Sym('str', 'T'), Sym('str', 'O'), Sym('str', 'N'), Const(kk)], flags={'len_as_variable': True})
        for o in outs:
            if o.imprecise or o.kind != 'return':
                continue
            finds = [t for t in _terms(o.value) if isinstance(t, Atom) and t.op in ('find', 'index') and len(t.args) >= 2
                     and getattr(t.args[0], 'name', None) == 'T']
            for t in finds:
                n += 1
                if len(t.args) == 2:
                    continue            # no start offset: from the beginning
                start = t.args[2]
                inner = [x for x in _terms(start) if isinstance(x, Atom) and x.op in ('find', 'index') and x is not t]
                if not inner:
                    ok = _is_zero(start)
                    res.ob('R10', 'SUBSTITUTE', {'k': kk, 'first search starts at': repr(start)}, ok)
                    if not ok:
                        res.violation('R10', 'function:SUBSTITUTE:scan-start', where,
                                      'the scan for the occurrences starts at offset %r instead of 0: an occurrence at the very beginning of the '
                                      'text is never counted (SUBSTITUTE("ab-ab","ab","#",1) leaves the first "ab" alone)' % (start,),
                                      case={'k': kk}, func=f.name)
                    continue
                # next search: previous hit + step, 1 <= step <= len(old)
                step = None
                if isinstance(start, Atom) and start.op == 'add' and len(start.args) == 2:
                    a, b = start.args
                    if isinstance(b, Atom) and b.op in ('find', 'index'):
                        a, b = b, a
                    if isinstance(a, Atom) and a.op in ('find', 'index'):
                        step = b
                if step is None:
                    res.ob('R10', 'SUBSTITUTE', {'k': kk, 'next search starts at': repr(start)[:80]}, True, 'undecided: not previous hit + step')
                    continue
                ok = (isinstance(step, Const) and step.value == 1 and not isinstance(step.value, bool)) or \
                    (isinstance(step, Aff) and step.const == 0 and len(step.coeffs) == 1 and list(step.coeffs.values())[0] == 1
                     and list(step.coeffs)[0].startswith('len(O'))
                res.ob('R10', 'SUBSTITUTE', {'k': kk, 'next search advances by': repr(step)}, ok)
                if not ok:
                    res.violation('R10', 'function:SUBSTITUTE:scan-step', where,
                                  'after a hit the scan continues at hit + %r; it must advance by at least 1 and at most len(old), otherwise it '
                                  'finds the same occurrence again or jumps over one' % (step,), case={'k': kk}, func=f.name)
            # split(): pieces = occurrences + 1, so the k-th occurrence exists only with at least k + 1 pieces
            text = repr(o.value)
            if 'split(T' in text and not (isinstance(o.value, Sym) and o.value.name == 'T'):
                n += 1
                box, multi = H.box_of(o.notes)
                pieces = [v for v in box if v.startswith('len(split(T')]
                lo = None
                if pieces:
                    e = box[pieces[0]]
                    if e[0] is not None:
                        import math
                        lo = math.floor(e[0]) + 1 if e[1] or e[0] != math.floor(e[0]) else int(e[0])
                        if e[1] and e[0] == math.floor(e[0]):
                            lo = int(e[0]) + 1
                ok = lo is not None and lo >= kk + 1
                res.ob('R10', 'SUBSTITUTE', {'k': kk, 'pieces of text.split(old) on the replacing trace': '>= %s' % lo}, ok)
                if not ok:
                    res.violation('R10', 'function:SUBSTITUTE:split-count', where,
                                  'for instance number %d the text is rebuilt around a replacement although the decisions of that trace only '
                                  'establish %s pieces of text.split(old): k pieces are k - 1 occurrences, so with exactly %d pieces there is no '
                                  '%d-th occurrence and the text must come back unchanged (the new text gets appended instead)'
                                  % (kk, ('at least %d' % lo) if lo is not None else 'an unknown number of', kk, kk), case={'k': kk}, func=f.name)
    res.analysed['SUBSTITUTE find()/split() terms examined'] = n
