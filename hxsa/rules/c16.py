# -*- coding: utf-8 -*-
"""C16 - real-valued math and PV return the mathematically defined value or an error (structural clauses)."""
import ast
from fractions import Fraction

from ..model import AnalysisError, src
from ..absint import (Interp, Const, Sym, Err, Atom, Top, Func, ListV, Obj, Aff, Raised, Unmodelled, Exc, k)
from .. import abshelp as H, ctx as ctxmod, purity, polyform as PF
from .c01 import error_singletons

UNARY = {
    'ABS': lambda x: PF.var('abs(%s)' % x.canon()),
    'SQRT': lambda x: fn('math.sqrt', x),
    'LN': lambda x: fn('math.log', x),
    'SIN': lambda x: fn('math.sin', x), 'COS': lambda x: fn('math.cos', x), 'TAN': lambda x: fn('math.tan', x),
    'ASIN': lambda x: fn('math.asin', x), 'ACOS': lambda x: fn('math.acos', x), 'ATAN': lambda x: fn('math.atan', x),
    'SINH': lambda x: fn('math.sinh', x), 'COSH': lambda x: fn('math.cosh', x), 'TANH': lambda x: fn('math.tanh', x),
    'ASINH': lambda x: fn('math.asinh', x), 'ATANH': lambda x: fn('math.atanh', x),
}


def fn(name, *args):
    return PF.var('%s(%s)' % (name, ', '.join(a.canon() for a in args)))


PI = PF.var('math.pi')
E_ = PF.var('math.e')


def alternatives(name, x):
    """Accepted closed forms (as rational functions over opaque math atoms)."""
    one = PF.const(1)
    if name in UNARY:
        return [UNARY[name](x)]
    if name == 'EXP':
        return [PF.var('pow(%s, %s)' % (E_.canon(), x.canon())), fn('math.exp', x)]
    if name == 'LOG10':
        return [fn('math.log', x, PF.const(10)), fn('math.log10', x)]
    if name == 'ACOSH':
        return [fn('math.log', x + fn('math.sqrt', x * x - one)), fn('math.acosh', x)]
    if name == 'ACOT':
        return [fn('math.atan', one / x)]
    if name == 'ACOTH':
        return [PF.const(Fraction(1, 2)) * fn('math.log', (x + one) / (x - one)), fn('math.atanh', one / x)]
    if name == 'COT':
        return [fn('math.cos', x) / fn('math.sin', x), one / fn('math.tan', x)]
    if name == 'RADIANS':
        return [x * PI / PF.const(180), fn('math.radians', x)]
    if name == 'DEGREES':
        return [x * PF.const(180) / PI, fn('math.degrees', x)]
    return []


ALL_UNARY = sorted(list(UNARY) + ['EXP', 'LOG10', 'ACOSH', 'ACOT', 'ACOTH', 'COT', 'RADIANS', 'DEGREES'])


def run(model, res, tier):
    c = ctxmod.get(model)
    res.explanation = (
        'Each function of the statement is abstractly interpreted on a symbolic number; the returned expression tree is normalised to a '
        'rational function over opaque math atoms (exact coefficients) and compared as an algebraic identity with the defining closed '
        'form (R2: SIN -> math.sin(x), COT -> cos/sin or 1/tan, ACOSH -> log(x + sqrt(x^2-1)), RADIANS -> x*pi/180, ATAN2(x,y) -> '
        'atan2(y,x) ...). R1 sibling rule: on an error argument every function returns an error value, on non-numeric text an error, on '
        'numeric text and on logicals the very same expression as on the number (with x replaced by its conversion). R3 RAND is '
        'random.random(); RANDBETWEEN draws an inclusive integer on (int(bottom), int(top)). R4 PV: with R = (1+r)^n an opaque atom, '
        'pv*R + pmt*(1+r*type)*(R-1)/r + fv is the zero rational function on the r != 0 branch and pv + pmt*n + fv on the r = 0 branch. '
        'R5 ATAN2 gives #DIV/0! exactly when both coerced coordinates are zero, for number and text arguments alike. '
        'Floating-point accuracy and the numeric identities on values are NOT decided.')
    res.rule('R1', 'coercion and error discipline are the same for every function (sibling rule)')
    res.rule('R2', 'each function returns its defining closed form (algebraic identity)')
    res.rule('R3', 'RAND / RANDBETWEEN draw from the stated ranges')
    res.rule('R4', 'PV satisfies the annuity equation identically')
    res.rule('R5', 'ATAN2: #DIV/0! exactly at the origin of the coerced coordinates')
    res.rule('R6', 'no cache or shared state')
    res.rule('R7', 'numeric text is accepted as the number it spells: the shared text-to-number coercion is int() first, float() second, nothing pre-filtered (shared with C06.R9)')
    res.trusted += ['hxsa abstract interpreter', 'hxsa polynomial normal form (exact rational arithmetic)', 'python math function names']
    em, singles = error_singletons(model)
    E = dict((msg, n) for n, msg in singles.items())
    H.safely(res, 'R1', 'unary', _unary, model, res, E)
    H.safely(res, 'R1', 'binary', _binary, model, res, E)
    H.safely(res, 'R1', 'random', _random, model, res)
    H.safely(res, 'R1', 'pv', _pv, model, res, E)
    from . import c06
    H.borrow(res, 'R7', 'text-to-number coercion', lambda tmp: c06._to_number(model, tmp, H.date_opaque(model), R='R7'))
    H.safely(res, 'R1', 'atan2', _atan2, model, res, E)
    keys = []
    for n in ALL_UNARY + ['LOG', 'POWER', 'PI', 'ATAN2', 'PV', 'RAND', 'RANDBETWEEN']:
        m, f = model.registered(n)
        keys.append((m.name, m.qualname_of(f)))
    region = c.cg.reachable(keys)
    res.rule('RX', 'where a function answers "an error rather than a value" by raising, the catch-all of parse() turns every exception class into #ERROR! (shared with C01.R1)')
    from . import c01 as _c01
    H.borrow(res, 'RX', 'catch-all of parse()', lambda tmp: _c01.catch_all_rule(model, tmp, c))
    purity.check_region(res, c, 'R6', None, region, 'a math function')
    purity.check_memo(res, c, 'R6', region, 'a math function')


def _runs(model, name, make_args):
    return H.run_function(model, H.registry_func(model, name), make_args)


def _subst_env(conv):
    """env mapping symbol name -> Rat, used to identify  int(X)  with  x."""
    return conv


def _unary(model, res, E):
    n = 0
    for name in ALL_UNARY:
        m, f = model.registered(name)
        site = name
        try:
            base = _runs(model, name, lambda: [Sym('float', 'x')])
        except Unmodelled as e:
            res.ob('R2', site, 'undecided', True, str(e))
            res.notes.append('C16 %s: %s' % (name, e))
            continue
        vals = [o for o in base if o.kind == 'return' and not o.imprecise]
        ok = len(vals) == 1 and len(base) == 1
        got = None
        if ok:
            try:
                got = PF.ratform(vals[0].value)
                x = PF.var('x')
                ok = any(got.equals(alt) for alt in alternatives(name, x))
            except PF.NotPolynomial as e:
                ok = False
                got = 'not an arithmetic expression: %s' % e
        n += 1
        res.ob('R2', site, {'argument': 'number x', 'result': repr(got)[:100]}, ok)
        if not ok:
            res.violation('R2', 'function:%s:closed-form' % name, m.where(f),
                          '%s(x) must be %s; the function returns %s' % (name, ' or '.join(a.canon() for a in alternatives(name, PF.var('x'))),
                                                                          got if got is not None else '; '.join(H.describe(base))), func=f.name)
            continue
        # ---- R1 sibling rule
        outs = _runs(model, name, lambda: [Sym('err', 'ERR')])
        bad = [o for o in outs if not (o.kind == 'return' and o.value.tag == 'err')]
        res.ob('R1', site, 'error argument gives an error value', not bad, H.describe(outs))
        if bad:
            res.violation('R1', 'function:%s:error-argument' % name, m.where(f),
                          '%s of an error value must be an error value; got %s' % (name, '; '.join(H.describe(bad))), func=f.name)
        outs = _runs(model, name, lambda: [Sym('str', 'T')])
        for o in outs:
            if o.imprecise:
                continue
            parsed_int = any(t.startswith('int(') and alt is True for (t, alt, s) in o.notes)
            parsed_float = any(t.startswith('float(') and alt is True for (t, alt, s) in o.notes)
            failed = any(t.startswith('float(') and alt is False for (t, alt, s) in o.notes)
            if failed:
                ok1 = o.kind == 'return' and o.value.tag == 'err'
                res.ob('R1', site, 'non-numeric text gives an error', ok1, repr(o))
                if not ok1:
                    res.violation('R1', 'function:%s:text-argument' % name, m.where(f),
                                  '%s of text that is not a number must be an error - never a number; got %r' % (name, o), func=f.name)
            elif parsed_int or parsed_float:
                conv = 'int(T)' if parsed_int else 'float(T)'
                ok1 = False
                if o.kind == 'return':
                    try:
                        r = PF.ratform(o.value)
                        ok1 = any(r.equals(alt) for alt in alternatives(name, PF.var(conv)))
                    except PF.NotPolynomial:
                        ok1 = False
                res.ob('R1', site, 'numeric text acts as %s' % conv, ok1, repr(o)[:100])
                if not ok1:
                    res.violation('R1', 'function:%s:numeric-text' % name, m.where(f),
                                  '%s of numeric text must be %s applied to %s; got %r' % (name, name, conv, o), func=f.name)
        outs = _runs(model, name, lambda: [Sym('bool', 'x')])
        ok2 = len(outs) == 1 and outs[0].kind == 'return'
        if ok2:
            try:
                ok2 = any(PF.ratform(outs[0].value).equals(alt) for alt in alternatives(name, PF.var('x')))
            except PF.NotPolynomial:
                ok2 = False
        res.ob('R1', site, 'a logical acts as the number 1/0', ok2, H.describe(outs))
        if not ok2:
            res.violation('R1', 'function:%s:logical-argument' % name, m.where(f),
                          '%s of a logical must treat it as the number 1/0; got %s' % (name, '; '.join(H.describe(outs))), func=f.name)
    res.soft_floor('unary math functions compared with their closed form', n, 20)


def _binary(model, res, E):
    # LOG(x, b), POWER(x, y), PI()
    m, f = model.registered('LOG')
    outs = _runs(model, 'LOG', lambda: [Sym('float', 'x'), Sym('float', 'b')])
    ok = len(outs) == 1 and outs[0].kind == 'return'
    if ok:
        r = PF.ratform(outs[0].value)
        x, b = PF.var('x'), PF.var('b')
        ok = r.equals(fn('math.log', x, b)) or r.equals(fn('math.log', x) / fn('math.log', b))
    res.ob('R2', 'LOG', 'LOG(x, b) = log(x)/log(b)', ok, H.describe(outs))
    if not ok:
        res.violation('R2', 'function:LOG:closed-form', m.where(f), 'LOG(x, b) must be math.log(x, b); got %s' % '; '.join(H.describe(outs)), func=f.name)
    outs = _runs(model, 'LOG', lambda: [Sym('float', 'x')])
    ok = len(outs) == 1 and outs[0].kind == 'return' and PF.ratform(outs[0].value).equals(fn('math.log', PF.var('x'), PF.const(10)))
    res.ob('R2', 'LOG', 'default base 10', ok, H.describe(outs))
    if not ok:
        res.violation('R2', 'function:LOG:default-base', m.where(f), 'LOG(x) must default to base 10; got %s' % '; '.join(H.describe(outs)), func=f.name)
    m, f = model.registered('POWER')
    outs = _runs(model, 'POWER', lambda: [Sym('float', 'x'), Sym('float', 'y')])
    vals = [o for o in outs if o.kind == 'return' and o.value.tag != 'err']
    ok = bool(vals)
    for o in vals:
        r = PF.ratform(o.value)
        ok = ok and r.equals(PF.var('pow(x, y)'))
    res.ob('R2', 'POWER', 'POWER(x, y) = x ** y', ok, H.describe(outs))
    if not ok:
        res.violation('R2', 'function:POWER:closed-form', m.where(f), 'POWER(x, y) must be x ** y; got %s' % '; '.join(H.describe(outs)), func=f.name)
    # outside the real domain (negative base, fractional exponent) python's ** yields a complex number: it must not be returned
    try:
        outs = H.run_function(model, H.registry_func(model, 'POWER'), lambda: [Sym('float', 'x'), Sym('float', 'y')],
                              flags={'pow_complex_forks': True})
        cx = [o for o in outs if not o.imprecise and any('is complex' in t and alt is True for (t, alt, s_) in o.notes)]
        bad = [o for o in cx if o.kind == 'return' and o.value.tag != 'err']
        res.ob('R1', 'POWER', 'a complex power (negative base, fractional exponent) is never returned as a value', not bad, H.describe(cx))
        if bad:
            res.violation('R1', 'function:POWER:complex-result', m.where(f),
                          'for a negative base and a fractional exponent x ** y is a complex number in python 3 and POWER returns it (%s); '
                          'outside the real domain the result must be an error, never a number' % '; '.join(H.describe(bad)[:2]), func=f.name)
    except Unmodelled as e:
        res.ob('R1', 'POWER', 'complex power', True, 'undecided: %s' % e)
    m, f = model.registered('PI')
    outs = _runs(model, 'PI', lambda: [])
    ok = len(outs) == 1 and outs[0].kind == 'return' and isinstance(outs[0].value, Atom) and outs[0].value.op == 'math.pi'
    res.ob('R2', 'PI', 'PI() = math.pi', ok, H.describe(outs))
    if not ok:
        res.violation('R2', 'function:PI:closed-form', m.where(f), 'PI() must be math.pi; got %s' % '; '.join(H.describe(outs)), func=f.name)
    for name, mk in (('LOG', lambda: [Sym('err', 'ERR'), Sym('float', 'b')]), ('LOG', lambda: [Sym('float', 'x'), Sym('err', 'ERR')]),
                     ('POWER', lambda: [Sym('err', 'ERR'), Sym('float', 'y')]), ('POWER', lambda: [Sym('float', 'x'), Sym('err', 'ERR')])):
        mm, ff = model.registered(name)
        outs = _runs(model, name, mk)
        bad = [o for o in outs if not (o.kind == 'return' and o.value.tag == 'err')]
        res.ob('R1', name, 'error argument gives an error value', not bad, H.describe(outs))
        if bad:
            res.violation('R1', 'function:%s:error-argument' % name, mm.where(ff), '%s with an error argument must be an error; got %s'
                          % (name, '; '.join(H.describe(bad))), func=ff.name)


def _random(model, res):
    m, f = model.registered('RAND')
    outs = _runs(model, 'RAND', lambda: [])
    ok = len(outs) == 1 and outs[0].kind == 'return' and isinstance(outs[0].value, Atom) and outs[0].value.op == 'random.random'
    res.ob('R3', 'RAND', 'random.random()', ok, H.describe(outs))
    if not ok:
        res.violation('R3', 'function:RAND:source', m.where(f), 'RAND must be random.random() (uniform on [0,1)); got %s' % '; '.join(H.describe(outs)), func=f.name)
    m, f = model.registered('RANDBETWEEN')
    outs = _runs(model, 'RANDBETWEEN', lambda: [Sym('int', 'a'), Sym('int', 'b')])

    def is_int_of(v, nm):
        return isinstance(v, Atom) and v.op == 'int' and getattr(v.args[0], 'name', None) == nm

    # the draw as an integer range in linear forms over a and b: [lo, hi] must be [int(a), int(b)], both ends included
    try:
        outs2 = _runs(model, 'RANDBETWEEN', lambda: [Aff(1, 0, 'int', 'a'), Aff(1, 0, 'int', 'b')])
    except Unmodelled:
        outs2 = []

    def aff(v):
        if isinstance(v, Aff):
            return v
        if isinstance(v, Const) and isinstance(v.value, int) and not isinstance(v.value, bool):
            return Aff(0, v.value, 'int')
        if isinstance(v, Atom) and v.op == 'int' and len(v.args) == 1:
            return aff(v.args[0])
        return None

    def draw_range(v):
        from ..absmodels import arith
        if isinstance(v, Atom) and v.op == 'random.randint' and len(v.args) == 2:
            return aff(v.args[0]), aff(v.args[1])
        if isinstance(v, Atom) and v.op == 'random.randrange' and len(v.args) == 2:
            hi = aff(v.args[1])
            return aff(v.args[0]), (None if hi is None else arith(None, 'sub', hi, Const(1)))
        if isinstance(v, Atom) and v.op in ('add', 'sub') and len(v.args) == 2:
            for x, y, flip in ((v.args[0], v.args[1], False), (v.args[1], v.args[0], True)):
                base, rng = aff(x), draw_range(y)
                if base is not None and rng is not None and None not in rng and not (v.op == 'sub'):
                    return arith(None, 'add', base, rng[0]), arith(None, 'add', base, rng[1])
        return None
    decided = False
    # integer bounds in the right order never give an error: an error exit whose decisions do not compare the two bounds with each other
    # (a sign test on one of them, say) is taken for some a <= b as well
    from ..absint import AffCmp
    for o in outs2:
        if o.imprecise:
            continue
        is_error = (o.kind == 'return' and isinstance(o.value, Err)) or o.kind == 'raise'
        if not is_error:
            continue
        cmps = [s_ for (t_, alt_, s_) in o.notes if isinstance(s_, AffCmp)]
        both = [s_ for s_ in cmps if set(s_.coeffs) >= set(['a', 'b'])]
        one = [s_ for s_ in cmps if len(set(s_.coeffs) & set(['a', 'b'])) == 1]
        if one and not both:
            res.ob('R3', 'RANDBETWEEN', {'error exit': repr(o.value)[:60]}, False, H.describe([o])[:1])
            res.violation('R3', 'function:RANDBETWEEN:error-for-valid-bounds', m.where(f),
                          'RANDBETWEEN(a, b) answers with an error on a condition about one bound alone (%s): integer bounds with a <= b - '
                          'negative ones included - must give an integer from [a, b]' % '; '.join(H.describe([o])[:1]), func=f.name)
    for o in outs2:
        if o.imprecise or o.kind != 'return':
            continue
        rng = draw_range(o.value)
        if rng is None or None in rng:
            continue
        decided = True
        lo, hi = rng
        okr = isinstance(lo, Aff) and isinstance(hi, Aff) and dict(lo.coeffs) == {'a': 1} and lo.const == 0 and dict(hi.coeffs) == {'b': 1} and hi.const == 0
        res.ob('R3', 'RANDBETWEEN', {'draw': repr(o.value)[:80], 'range': '[%r, %r]' % (lo, hi)}, okr)
        if not okr:
            res.violation('R3', 'function:RANDBETWEEN:range', m.where(f),
                          'RANDBETWEEN(a, b) draws from [%r, %r]; it must be an integer from the inclusive range [a, b] (b itself can come out, and '
                          'a = b leaves exactly one value)' % (lo, hi), func=f.name)
    if decided:
        return
    ok = len(outs) == 1 and outs[0].kind == 'return' and isinstance(outs[0].value, Atom)
    if ok:
        v = outs[0].value
        if v.op == 'random.randint':
            ok = len(v.args) == 2 and is_int_of(v.args[0], 'a') and is_int_of(v.args[1], 'b')
        elif v.op == 'random.randrange':
            ok = len(v.args) == 2 and is_int_of(v.args[0], 'a') and isinstance(v.args[1], Atom) and v.args[1].op == 'add' and \
                is_int_of(v.args[1].args[0], 'b') and isinstance(v.args[1].args[1], Const) and v.args[1].args[1].value == 1
        else:
            ok = False
    res.ob('R3', 'RANDBETWEEN', 'inclusive integer draw on (int(a), int(b))', ok, H.describe(outs))
    if not ok:
        res.violation('R3', 'function:RANDBETWEEN:range', m.where(f),
                      'RANDBETWEEN(a, b) must draw an integer from the inclusive range [int(a), int(b)] (randint(a, b) or randrange(a, b+1)); got %s'
                      % '; '.join(H.describe(outs)), func=f.name)


def _pv(model, res, E):
    m, f = model.registered('PV')
    try:
        outs = _runs(model, 'PV', lambda: [Sym('float', 'r'), Sym('float', 'n'), Sym('float', 'pmt'), Sym('float', 'fv'), Sym('float', 't')])
    except Unmodelled as e:
        res.ob('R4', 'PV', 'undecided', True, str(e))
        return
    n = 0
    for o in outs:
        if o.imprecise or o.kind != 'return' or o.value.tag == 'err':
            continue
        def about_rate(s_):
            # the decision  r == 0  (either way round); a test of anything else (e.g. (1+r)**n == 1) does not make the rate zero
            if not (isinstance(s_, Atom) and len(s_.args) == 2):
                return False
            a_, b_ = s_.args
            if isinstance(a_, Const):
                a_, b_ = b_, a_
            return isinstance(a_, Sym) and a_.name == 'r' and isinstance(b_, Const) and b_.value == 0 and not isinstance(b_.value, bool)
        zero_rate = any(about_rate(s) and ((s.op == 'eq' and alt is True) or (s.op == 'ne' and alt is False)) for (t, alt, s) in o.notes)
        try:
            pv = PF.ratform(o.value)
        except PF.NotPolynomial as e:
            res.ob('R4', 'PV', 'result is arithmetic', False, str(e))
            res.violation('R4', 'function:PV:not-arithmetic', m.where(f), 'PV returns %r' % (o.value,), func=f.name)
            continue
        r, nn, pmt, fv, t = [PF.var(x) for x in ('r', 'n', 'pmt', 'fv', 't')]
        one = PF.const(1)
        n += 1
        if zero_rate:
            resid = pv + pmt * nn + fv
            label = 'r = 0: pv + pmt*n + fv = 0'
        else:
            R = PF.var('pow(%s, %s)' % ((one + r).canon(), nn.canon()))
            resid = pv * R + pmt * (one + r * t) * (R - one) / r + fv
            label = 'r != 0: pv*(1+r)^n + pmt*(1+r*type)*((1+r)^n - 1)/r + fv = 0'
        ok = resid.is_zero()
        res.ob('R4', 'PV', label, ok, 'residual numerator: %r' % (resid.num,) if not ok else 'identically zero')
        if not ok:
            res.violation('R4', 'function:PV:annuity-equation', m.where(f),
                          'PV does not satisfy the annuity equation (%s): the residual is the non-zero expression %s'
                          % (label, repr(resid.num)[:200]), case=label, func=f.name)
    res.soft_floor('PV branches checked against the annuity equation', n, 2)
    # defaults: fv and type omitted mean 0
    outs = _runs(model, 'PV', lambda: [Sym('float', 'r'), Sym('float', 'n'), Sym('float', 'pmt')])
    full = _runs(model, 'PV', lambda: [Sym('float', 'r'), Sym('float', 'n'), Sym('float', 'pmt'), Const(0), Const(0)])
    a = sorted(PF.ratform(o.value).canon() for o in outs if o.kind == 'return' and o.value.tag != 'err')
    b = sorted(PF.ratform(o.value).canon() for o in full if o.kind == 'return' and o.value.tag != 'err')
    ok = a == b and bool(a)
    res.ob('R4', 'PV', 'omitted fv/type mean 0', ok)
    if not ok:
        res.violation('R4', 'function:PV:defaults', m.where(f), 'omitting fv and type must equal passing 0 for both', func=f.name)
    # an empty argument in the middle (PV(r, n, pmt, , type): the grammar hands over a blank) is that argument's default, the later ones stay put
    for label, blank, zero in (('fv left empty, type given', lambda: [Sym('float', 'r'), Sym('float', 'n'), Sym('float', 'pmt'), Const(None), Sym('float', 't')],
                                lambda: [Sym('float', 'r'), Sym('float', 'n'), Sym('float', 'pmt'), Const(0), Sym('float', 't')]),
                               ('fv given, type left empty', lambda: [Sym('float', 'r'), Sym('float', 'n'), Sym('float', 'pmt'), Sym('float', 'fv'), Const(None)],
                                lambda: [Sym('float', 'r'), Sym('float', 'n'), Sym('float', 'pmt'), Sym('float', 'fv'), Const(0)])):
        try:
            a = sorted(PF.ratform(o.value).canon() for o in _runs(model, 'PV', blank) if o.kind == 'return' and o.value.tag != 'err' and not o.imprecise)
            b = sorted(PF.ratform(o.value).canon() for o in _runs(model, 'PV', zero) if o.kind == 'return' and o.value.tag != 'err' and not o.imprecise)
        except (Unmodelled, PF.NotPolynomial) as e:
            res.ob('R4', 'PV', label, True, 'undecided: %s' % e)
            continue
        if not b:
            res.ob('R4', 'PV', label, True, 'undecided: no value trace')
            continue
        ok = a == b
        res.ob('R4', 'PV', label + ': the empty argument means 0 and the other keeps its place', ok)
        if not ok:
            res.violation('R4', 'function:PV:blank-argument', m.where(f),
                          'PV with %s must equal PV with 0 in that place (the annuity equation is stated for the arguments in their positions); '
                          'the value traces differ - a blank argument that is dropped shifts the later arguments one place to the left' % label,
                          case=label, func=f.name)


def _atan2(model, res, E):
    m, f = model.registered('ATAN2')
    DIV0 = E['#DIV/0!']
    for tags, label in ((('float', 'float'), 'numbers'), (('str', 'str'), 'numeric text'), (('str', 'float'), 'text and number')):
        try:
            outs = _runs(model, 'ATAN2', lambda tags=tags: [Sym(tags[0], 'X'), Sym(tags[1], 'Y')])
        except Unmodelled as e:
            res.ob('R5', 'ATAN2', label, True, 'undecided: %s' % e)
            continue
        n_div = 0
        for o in outs:
            if o.imprecise:
                continue
            if any((t.startswith('float(') and alt is False) for (t, alt, s) in o.notes):
                continue        # non-numeric text: an error (R1)
            zeros = {}
            for (t, alt, s) in o.notes:
                if isinstance(s, Atom) and s.op in ('eq', 'ne') and isinstance(s.args[1], Const) and s.args[1].value == 0:
                    who = 'X' if 'X' in repr(s.args[0]) else ('Y' if 'Y' in repr(s.args[0]) else '?')
                    zeros[who] = bool(alt) if s.op == 'eq' else (not bool(alt))      # `v != 0` decided False means v is zero
                    # the comparison must be on the coerced value for text
            if o.kind == 'return' and isinstance(o.value, Err) and o.value.name == DIV0:
                n_div += 1
                ok = zeros.get('X') is True and zeros.get('Y') is True
                res.ob('R5', 'ATAN2', {'arguments': label, 'returns': '#DIV/0!', 'zero tests': zeros}, ok)
                if not ok:
                    res.violation('R5', 'function:ATAN2:div0-condition', m.where(f),
                                  'ATAN2 (%s) returns #DIV/0! on a path where only %s is known to be zero: it must do so only at the origin'
                                  % (label, [kk for kk, vv in zeros.items() if vv] or 'nothing'), func=f.name)
            elif o.kind == 'return' and o.value.tag != 'err':
                ok = not (zeros.get('X') is True and zeros.get('Y') is True)
                # the value must be atan2(y, x) on the coerced coordinates
                v = o.value
                okv = isinstance(v, Atom) and v.op == 'math.atan2' and 'Y' in repr(v.args[0]) and 'X' in repr(v.args[1])
                res.ob('R5', 'ATAN2', {'arguments': label, 'returns': repr(v)[:60], 'zero tests': zeros}, ok and okv)
                if not okv:
                    res.violation('R5', 'function:ATAN2:roles', m.where(f),
                                  'ATAN2(x, y) must be math.atan2(y, x); got %r' % (v,), func=f.name)
        ok = n_div >= 1
        res.ob('R5', 'ATAN2', {'arguments': label, 'a #DIV/0! trace guarded by both coordinates == 0 exists': n_div}, ok)
        if not ok:
            res.violation('R5', 'function:ATAN2:origin-%s' % label.replace(' ', '-'), m.where(f),
                          'with %s there is no path on which both coerced coordinates are tested for zero and #DIV/0! is returned: '
                          'the origin yields a number' % label, case=label, func=f.name)
