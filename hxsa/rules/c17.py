# -*- coding: utf-8 -*-
"""C17 - rounding and integer functions meet their specs; radix conversions invert (structural clauses)."""
import ast
from fractions import Fraction

from ..model import AnalysisError, src
from ..paths import walk_no_defs, atoms
from ..absint import (Interp, Const, Sym, Err, Atom, Top, Func, ListV, Obj, Aff, AffCmp, Raised, Unmodelled, Exc, k)
from .. import abshelp as H, ctx as ctxmod, purity, guards, sa
from . import c01
from .c01 import error_singletons

P39 = 2 ** 39
P40 = 2 ** 40


def run(model, res, tier):
    c = ctxmod.get(model)
    res.explanation = (
        'R1 every loop in BASE, ROMAN, FACTDOUBLE, ARABIC, DECIMAL, DEC2HEX, HEX2DEC has a termination argument (the loop-variant '
        'rule of C01 restricted to these functions). R2 documented domains: at every value-returning exit the dominating guards '
        'imply the domain of the statement (BASE radix in [2,36] and number >= 0; FACT/FACTDOUBLE n >= 0; MOD/QUOTIENT divisor != 0; '
        'DEC2HEX in [-2^39, 2^39); HEX2DEC parsed value in [0, 2^40); ROMAN 0 < n < 4000 and 0 <= form <= 4). R3 the two\'s-complement '
        'constants in HEX2DEC, DEC2HEX and DECIMAL are 2^39 (threshold) and 2^40 (modulus) in those roles. R4 ROMAN\'s numeral pairs and '
        'ARABIC\'s map are the same relation; ARABIC\'s subtractive pairs are differences of the base pairs. R5 BASE renders each digit '
        'with one character of a 36-symbol alphabet. R6 the radix conversions use no floating-point operation. R7 MOD is built on '
        'number % divisor, QUOTIENT on int(number / divisor), FACT on math.factorial(int(n)), ROUND on round(number, digits), HEX2DEC '
        'hands its argument unchanged to int(., 16). Rounding inequalities and the round-trip equalities as values are NOT decided.')
    res.rule('R1', 'every loop in the integer/radix functions terminates')
    res.rule('R2', 'documented domains are enforced by dominating guards')
    res.rule('R3', "two's-complement constants agree across HEX2DEC / DEC2HEX / DECIMAL")
    res.rule('R4', 'ROMAN and ARABIC numeral tables agree')
    res.rule('R5', 'BASE renders one character per digit from a 36-symbol alphabet')
    res.rule('R6', 'radix conversions are exact integer arithmetic')
    res.rule('R7', 'MOD / QUOTIENT / FACT / ROUND / HEX2DEC delegate to the defining operation')
    res.rule('R8', 'no cache or shared state')
    res.trusted += ['hxsa guard-fact engine (dominating if-return guards, interval facts)', 'hxsa abstract interpreter', 'CPython ast']
    em, singles = error_singletons(model)
    H.safely(res, 'R1', 'r1', _r1, model, res)
    H.safely(res, 'R2', 'r2', _r2, model, res, singles)
    H.safely(res, 'R3', 'r3', _r3, model, res)
    H.safely(res, 'R4', 'r4', _r4, model, res)
    H.safely(res, 'R5', 'r5_r6', _r5_r6, model, res)
    H.safely(res, 'R7', 'r7', _r7, model, res, dict((msg, n) for n, msg in singles.items()))
    keys = []
    for n in ('BASE', 'DECIMAL', 'DEC2HEX', 'HEX2DEC', 'ROMAN', 'ARABIC', 'FACT', 'FACTDOUBLE', 'MOD', 'QUOTIENT', 'ROUND', 'ROUNDUP',
              'ROUNDDOWN', 'CEILING', 'FLOOR', 'INT', 'EVEN', 'ODD', 'SIGN', 'COMPLEX', 'IMREAL', 'IMAGINARY'):
        m, f = model.registered(n)
        keys.append((m.name, m.qualname_of(f)))
    region = c.cg.reachable(keys)
    res.rule('RX', 'where a function answers "an error rather than a value" by raising, the catch-all of parse() turns every exception class into #ERROR! (shared with C01.R1)')
    from . import c01 as _c01
    H.borrow(res, 'RX', 'catch-all of parse()', lambda tmp: _c01.catch_all_rule(model, tmp, c))
    purity.check_region(res, c, 'R8', None, region, 'an integer/radix function')
    purity.check_memo(res, c, 'R8', region, 'an integer/radix function')


def _r1(model, res):
    n = 0
    for name in ('BASE', 'ROMAN', 'FACTDOUBLE', 'ARABIC', 'DECIMAL', 'DEC2HEX', 'HEX2DEC', 'FACT'):
        m, f = model.registered(name)
        consts = guards.module_consts(m, model)
        for node in ast.walk(f):
            if isinstance(node, ast.While):
                n += 1
                verdict, why = c01.while_verdict(model, m, f, node, consts)
                res.ob('R1', name, 'while %s' % src(node.test), verdict is not False, why)
                if verdict is False:
                    res.violation('R1', 'function:%s:loop' % name, m.where(node),
                                  '%s: loop "while %s" has no termination argument: %s' % (name, src(node.test), why), func=f.name)
            elif isinstance(node, (ast.For, ast.comprehension)):
                n += 1
                bad = c01._infinite_iterable(model, m, f, node.iter)
                res.ob('R1', name, 'for ... in %s' % src(node.iter)[:50], bad is None, bad)
                if bad:
                    res.violation('R1', 'function:%s:for' % name, m.where(node.iter), '%s iterates an unbounded producer (%s)' % (name, bad), func=f.name)
    res.soft_floor('loops in integer/radix functions', n, 5)


def _is_error_return(model, m, f, ret, facts):
    v = ret.value
    if v is None:
        return False
    from .c09 import singleton_name
    nm, msg = singleton_name(model, m, v)
    if nm is not None:
        return True
    if isinstance(v, ast.Name):
        for a, truth in facts:
            if truth and isinstance(a, ast.Call) and sa.call_name(a) == 'isinstance' and len(a.args) == 2 and \
                    isinstance(a.args[0], ast.Name) and a.args[0].id == v.id and 'XLError' in src(a.args[1]):
                return True
    return False


def _established_by_helper(model, m, f, var, chk, consts):
    for st, val in sa.assignments_to(f, var):
        if not (isinstance(val, ast.Call) and isinstance(val.func, (ast.Name, ast.Attribute))):
            continue
        r = model.resolve_attr_chain(m, val.func)
        if r is None or r[0] != 'func' or not isinstance(r[2], ast.FunctionDef):
            continue
        gm, g = r[1], r[2]
        pos = [i for i, a in enumerate(val.args) if isinstance(a, ast.Name) and a.id == var]
        gps = sa.params(g)
        if len(pos) != 1 or pos[0] >= len(gps):
            continue
        gvar = gps[pos[0]]
        gconsts = guards.module_consts(gm, model)
        exits = [x for x in walk_no_defs(g) if isinstance(x, ast.Return)]
        value_exits = 0
        good = True
        for x in exits:
            facts = guards.facts_at(gm, g, x, no_kill=(gvar,))
            if _is_error_return(model, gm, g, x, facts):
                continue
            # the exit must hand back the parameter itself or its integer part
            v = x.value
            inner = v.args[0] if isinstance(v, ast.Call) and sa.call_name(v) in ('int', 'float', 'math.floor', 'math.trunc') and v.args else v
            if not (isinstance(inner, ast.Name) and inner.id == gvar):
                good = False
                break
            value_exits += 1
            if not chk(guards.interval_of(facts, gvar, gconsts)):
                good = False
                break
        if good and value_exits:
            return True
    return False


_REACHED = {}


def _returns_reached_with_numbers(model, name, nparams):
    """ids of the Return statements of the registered function that some abstract trace reaches when every argument is a number
    (integer and real runs).  None when the interpreter cannot follow the function."""
    key = (id(model), name)
    if key in _REACHED:
        return _REACHED[key]
    from ..absint import Interp, Func
    m, f = model.registered(name)
    seen = set()
    ok = True
    for tag in ('float', 'int'):
        it = Interp(model)
        it.trace_returns = seen
        it.loop_cut = f
        it.trace_count = 19000         # a probe, not an exploration: at most a thousand traces
        try:
            it.run(lambda interp, st, tag=tag: interp.call(Func(m, f), [Sym(tag, 'a%d' % i) for i in range(nparams)]))
        except (Unmodelled, AnalysisError):
            ok = False
            break
    _REACHED[key] = seen if ok else None
    return _REACHED[key]


def _subterms(v):
    yield v
    if isinstance(v, Atom):
        for a in v.args:
            for x in _subterms(a):
                yield x


def _r2(model, res, singles):
    def in_range(lo, hi, lo_strict=False, hi_strict=False):
        def chk(iv):
            okl = iv.gt(lo) if lo_strict else iv.ge(lo)
            okh = iv.lt(hi) if hi_strict else iv.le(hi)
            return okl and okh
        return chk
    DOMAINS = {
        'BASE': [(('param', 1), in_range(2, 36), 'radix in [2, 36]'), (('param', 0), lambda iv: iv.ge(0), 'number >= 0')],
        'FACT': [(('param', 0), lambda iv: iv.ge(0), 'n >= 0')],
        'FACTDOUBLE': [(('param', 0), lambda iv: iv.ge(0), 'n >= 0')],
        'MOD': [(('param', 1), lambda iv: iv.excludes(0), 'divisor != 0')],
        'QUOTIENT': [(('param', 1), lambda iv: iv.excludes(0), 'divisor != 0')],
        'DEC2HEX': [(('param', 0), in_range(-P39, P39, hi_strict=True), 'number in [-2^39, 2^39)')],
        'HEX2DEC': [(('parsed', 0), in_range(0, P40, hi_strict=True), 'parsed value in [0, 2^40)')],
        'ROMAN': [(('param', 0), in_range(0, 4000, True, True), '0 < n < 4000'), (('param', 1), in_range(0, 4), '0 <= form <= 4')],
    }
    n = 0
    for name, doms in sorted(DOMAINS.items()):
        m, f = model.registered(name)
        consts = guards.module_consts(m, model)
        ps = sa.params(f)
        for (role, idx), chk, desc in doms:
            if role == 'param':
                if idx >= len(ps):
                    raise AnalysisError('%s has no parameter %d (anchor vanished)' % (name, idx))
                var = ps[idx]
            else:
                var = None
                for node in walk_no_defs(f):
                    if isinstance(node, ast.Assign) and isinstance(node.value, ast.Call) and sa.call_name(node.value) == 'int' and \
                            node.value.args and isinstance(node.value.args[0], ast.Name) and node.value.args[0].id == ps[idx] and \
                            isinstance(node.targets[0], ast.Name):
                        var = node.targets[0].id
                if var is None:
                    res.ob('R2', name, desc, True, 'undecided: parsed value not found')
                    continue
            rets = []
            for r in walk_no_defs(f):
                if not isinstance(r, ast.Return):
                    continue
                # single-exit style (result = ...; return result): the value-producing sites are the assignments
                if isinstance(r.value, ast.Name) and r.value.id not in ps:
                    asg = [(st, val) for st, val in sa.assignments_to(f, r.value.id) if val is not None and isinstance(st, ast.Assign)]
                    if asg and len(asg) == len(sa.assignments_to(f, r.value.id)):
                        for st, val in asg:
                            shim = ast.Return(value=val)
                            ast.copy_location(shim, st)
                            rets.append((st, shim, r))
                        continue
                rets.append((r, r, None))
            # a conditional expression is two exits, each under its side of the test
            split = []
            for at, r, also in rets:
                if isinstance(r.value, ast.IfExp):
                    for branch, truth in ((r.value.body, True), (r.value.orelse, False)):
                        shim = ast.Return(value=branch)
                        ast.copy_location(shim, r)
                        split.append((at, shim, also, [(a_, t_) for a_, t_ in atoms(r.value.test, truth)]))
                else:
                    split.append((at, r, also, []))
            reached = _returns_reached_with_numbers(model, name, len(ps))
            for at, r, also, extra in split:
                origin = also if also is not None else at
                if reached is not None and isinstance(origin, ast.Return) and id(origin) not in reached:
                    # the exit is not taken for numeric arguments at all (an error channel of the coercion: "if failure is not None")
                    res.ob('R2', name, {'exit': 'return %s' % src(r.value)[:40] if r.value is not None else 'return', 'requires': desc}, True,
                           'not reached with numeric arguments on any abstract trace')
                    continue
                facts = guards.facts_at(m, f, at, no_kill=(var,)) + extra
                if also is not None:
                    # the path runs through the assignment and then reaches the return: the guards of both hold
                    facts = facts + guards.facts_at(m, f, also, no_kill=(var,))
                if _is_error_return(model, m, f, r, facts):
                    continue
                # a return inside an exception handler for a failed parse is an error exit as well
                iv = guards.interval_of(facts, var, consts)
                ok = chk(iv)
                if not ok:
                    # the range test may live in a helper the argument is passed through:  number = _checked(number) ; every exit of
                    # the helper that hands a number back (not an error) has established the range on its own parameter
                    ok = _established_by_helper(model, m, f, var, chk, consts)
                    if ok:
                        iv = 'established by the helper the argument passes through'
                n += 1
                res.ob('R2', name, {'exit': 'return %s' % src(r.value)[:40] if r.value is not None else 'return', 'requires': desc, 'facts': repr(iv)}, ok)
                if not ok:
                    res.violation('R2', 'function:%s:domain:%s' % (name, var), m.where(r),
                                  '%s can return a value (%s) although the guards on that path only establish %s in %s; the statement requires %s '
                                  '(an argument outside the documented range must give an error, not a value)'
                                  % (name, src(r.value)[:50] if r.value is not None else 'None', var, iv, desc), case=desc, func=f.name)
            # loops also need the domain (non-termination otherwise): covered by R1
    res.floor('value-returning exits checked against a documented domain', n, 12)


def _big_constants(f, consts):
    out = []
    for node in walk_no_defs(f):
        if isinstance(node, (ast.Constant, ast.BinOp, ast.UnaryOp)):
            v = guards.const_number(node, consts)
            if v is not None and abs(v) >= 2 ** 32 and v.denominator == 1:
                out.append((node, int(v)))
    # drop sub-expressions of a folded expression (2**39 contains 2 and 39 - below the threshold anyway)
    return out


def _int_range(iv):
    """Integer range [a, b] (None = unbounded) of a rational interval with open/closed ends."""
    import math
    a = b = None
    if iv.lo is not None:
        a = math.ceil(iv.lo) if iv.lc else math.floor(iv.lo) + 1
    if iv.hi is not None:
        b = math.floor(iv.hi) if iv.hc else math.ceil(iv.hi) - 1
    return a, b


def _overlap(a, b, c, d):
    lo = c if a is None else (a if c is None else max(a, c))
    hi = d if b is None else (b if d is None else min(b, d))
    if lo is not None and hi is not None and lo > hi:
        return None
    return lo, hi


def _piecewise(model, res, name, var, make_args, flags, spec, where_fn, describe):
    """Run ``name`` with an integer variable ``var``; every trace is a piece (integer range of var from its affine decisions ->
    outcome).  ``spec``: list of (lo, hi, judge(outcome) -> bool, text).  Each piece must satisfy the spec range(s) it meets."""
    from .c13 import pieces_of, Iv
    m, f = where_fn
    try:
        outs = H.run_function(model, H.registry_func(model, name), make_args, flags=flags)
    except Unmodelled as e:
        res.ob('R3', name, describe, True, 'undecided: %s' % e)
        return 0
    n = 0
    for iv, o in pieces_of([o for o in outs if not o.imprecise], Iv(None, False, None, False)):
        if getattr(o, '_nonaffine', False) and not any(isinstance(s_, AffCmp) for (t_, a_, s_) in o.notes):
            continue        # a trace that never looked at the variable (e.g. the text did not parse)
        a, b = _int_range(iv)
        if a is not None and b is not None and a > b:
            continue
        for lo, hi, judge, text in spec:
            ov = _overlap(a, b, lo, hi)
            if ov is None:
                continue
            n += 1
            ok = judge(o)
            rng = '[%s, %s]' % ('-inf' if ov[0] is None else ov[0], '+inf' if ov[1] is None else ov[1])
            res.ob('R3', name, {'%s in' % var: rng, 'expected': text}, ok, '%s %r' % (o.kind, o.value))
            if not ok:
                wit = ov[0] if ov[0] is not None else ov[1]
                res.violation('R3', 'function:%s:%s' % (name, text.split(' ')[0]), m.where(f),
                              '%s: for %s in %s (e.g. %s = %s) the result must be %s; the code gives %s %r'
                              % (name, var, rng, var, wit, text, o.kind, o.value), case={var: rng}, func=f.name)
    return n


def _r3(model, res):
    """40-bit two's complement, decided on the piecewise-affine function the code computes (constants may be written in any way)."""
    def is_err(o):
        return (o.kind == 'return' and o.value.tag == 'err') or o.kind == 'raise'

    def is_aff(coeffs, const):
        def j(o):
            v = o.value
            if o.kind != 'return':
                return False
            if isinstance(v, Const):
                return not coeffs and v.value == const
            return isinstance(v, Aff) and dict((a, int(b)) for a, b in v.coeffs.items()) == coeffs and v.const == const
        return j
    n = 0
    spec_hex = [(None, -1, is_err, 'error (negative)'), (0, P39 - 1, is_aff({'v': 1}, 0), 'value (v itself below 2^39)'),
                (P39, P40 - 1, is_aff({'v': 1}, -P40), 'complement (v - 2^40 from 2^39 on)'), (P40, None, is_err, 'error (beyond 40 bits)')]
    n += _piecewise(model, res, 'HEX2DEC', 'v', lambda: [Sym('str', 'H')], {'radix_parse_symbol': 'v'}, spec_hex,
                    model.registered('HEX2DEC'), 'parsed value -> result')
    # DECIMAL has no sign convention: DECIMAL(BASE(n, r), r) = n for every n >= 0
    spec_dec = [(0, None, is_aff({'v': 1}, 0), 'value (the parsed number itself)')]
    n += _piecewise(model, res, 'DECIMAL', 'v', lambda: [Sym('str', 'T'), Sym('int', 'B')], {'radix_parse_symbol': 'v'}, spec_dec,
                    model.registered('DECIMAL'), 'parsed value -> result')

    # DEC2HEX: n in [-2^39, 2^39) is rendered from n (n >= 0) or n + 2^40 (n < 0); everything else is an error
    def hex_of(coeffs, const):
        def j(o):
            if o.kind != 'return':
                return False
            found = []

            def go(v):
                if isinstance(v, Atom):
                    if v.op == 'hex' and len(v.args) == 1:
                        found.append(v.args[0])
                    elif v.op == 'format' and len(v.args) == 2 and isinstance(v.args[0], Const) and v.args[0].value in ('%X', '%x'):
                        found.append(v.args[1])        # '%X' % n: the hexadecimal digits of n as well
                    elif v.op == 'format' and len(v.args) == 2 and isinstance(v.args[1], Const) and v.args[1].value in ('X', 'x'):
                        found.append(v.args[0])        # format(n, 'X')
                    for a in v.args:
                        go(a)
            go(o.value)
            return len(found) >= 1 and all(isinstance(x, Aff) and dict((a, int(b)) for a, b in x.coeffs.items()) == coeffs and x.const == const
                                           for x in found)
        return j
    spec_d2h = [(None, -P39 - 1, is_err, 'error (below -2^39)'), (-P39, -1, hex_of({'n': 1}, P40), 'digits-of-n+2^40 (negative numbers as 40-bit two\'s complement)'),
                (0, P39 - 1, hex_of({'n': 1}, 0), 'digits-of-n'), (P39, None, is_err, 'error (2^39 and beyond)')]
    n += _piecewise(model, res, 'DEC2HEX', 'n', lambda: [Aff(1, 0, 'int', 'n')], {}, spec_d2h, model.registered('DEC2HEX'), 'number -> digits')
    res.soft_floor("two's-complement pieces examined", n, 8)
    _roundtrip_table(model, res)
    _termination_table(model, res)


ROUNDTRIP_NUMBERS = (0, 1, 9, 10, 15, 16, 17, 160, 255, 256, 4095, 4096, 65536, 1048576, 2 ** 39 - 1, -1, -15, -16, -255, -256, -4096, -2 ** 39)


TERMINATION_TABLE = (
    ('ROMAN', (3.5,)), ('ROMAN', (0.5,)), ('ROMAN', (12.25, 2)), ('ROMAN', (3999, 4)), ('ROMAN', (1994, 0)), ('ROMAN', ('7',)),
    ('BASE', (2.5, 2)), ('BASE', (255, 16)), ('BASE', (0, 2)), ('BASE', (7.9, 3, 5)),
    ('FACTDOUBLE', (2.5,)), ('FACTDOUBLE', (7,)), ('FACTDOUBLE', (0.5,)), ('FACT', (3.7,)), ('FACT', (0,)),
    ('ARABIC', ('MCMXCIV',)), ('DECIMAL', ('ff', 16)), ('DEC2HEX', (255, 4)), ('HEX2DEC', ('FF',)),
)


FACTORIAL_ROWS = (0, 1, 2, 3, 4, 5, 6, 7, 8, 9, 10, 11, 12, 19, 20, 21, 25, 30, 31, 32, 33, 40, 170, 171)


def _factorial_table(model, res):
    """R7 (constant rows): FACT(n) and FACTDOUBLE(n) are the exact integers n! and n!! - also beyond 2**53, where a float stops being
    exact, and beyond 170!, where one stops being finite.  Only pure integer operations on constants are folded."""
    import math
    n_ok = 0
    for name in ('FACT', 'FACTDOUBLE'):
        m, f = model.registered(name)
        for n in FACTORIAL_ROWS:
            want = math.factorial(n)
            if name == 'FACTDOUBLE':
                want = 1
                for i in range(n, 1, -2):
                    want *= i
            try:
                outs = H.run_function(model, H.registry_func(model, name), lambda n=n: [Const(n)])
            except Unmodelled as e:
                res.ob('R7', name, {'n': n}, True, 'undecided: %s' % e)
                continue
            if len(outs) != 1 or outs[0].imprecise:
                res.ob('R7', name, {'n': n}, True, 'undecided: %d outcomes' % len(outs))
                continue
            o = outs[0]
            if o.kind == 'return' and not isinstance(o.value, Const):
                res.ob('R7', name, {'n': n}, True, 'undecided: %r' % (o.value,))
                continue
            n_ok += 1
            ok = o.kind == 'return' and isinstance(o.value.value, int) and not isinstance(o.value.value, bool) and o.value.value == want
            res.ob('R7', name, {'n': n, 'result': repr(o.value)[:60]}, ok)
            if not ok:
                res.violation('R7', 'function:%s:value-table' % name, m.where(f),
                              '%s(%d) gives %s; it is the exact integer %d' % (name, n, ('%r' % (o.value,))[:80] if o.kind == 'return' else
                                                                                 'an exception (%r)' % (o.value,), want), func=f.name)
    res.soft_floor('factorial rows decided', n_ok, 30)


def _termination_table(model, res):
    """R1 (constant runs): the interpreter follows the function on constants that stress its loops (fractions that never reach an
    integer loop end, zero, the largest inputs); a `while` whose complete state repeats without an undetermined choice never ends."""
    n = 0
    for name, args in TERMINATION_TABLE:
        if name not in model.registry:
            continue
        m, f = model.registered(name)
        try:
            outs = H.run_function(model, H.registry_func(model, name), lambda: [Const(a) for a in args])
        except Unmodelled as e:
            res.ob('R1', name, {'arguments': list(args)}, True, 'undecided: %s' % e)
            continue
        n += 1
        bad = [o for o in outs if o.kind == 'raise' and isinstance(o.value, Exc) and o.value.cls == 'hx:NonTermination']
        res.ob('R1', name, {'arguments': list(args), 'outcome': H.describe(outs)[:1]}, not bad)
        if bad:
            res.violation('R1', 'function:%s:does-not-return' % name, m.where(f),
                          '%s(%s) never returns: %s (every call terminates - a fractional or otherwise unusual argument included)'
                          % (name, ', '.join(repr(a) for a in args), bad[0].value.msg or 'a loop repeats its state'), case={'arguments': list(args)}, func=f.name)
    res.soft_floor('constant termination runs', n, 12)


def _roundtrip_table(model, res):
    """R3 (constant table): HEX2DEC(DEC2HEX(n)) = n on constants that exercise every digit position (trailing and leading zeros, x
    and 0 next to the prefix, both signs and both ends of the range); folding of hex()/int()/text methods on constants only.  A run
    that is not one precise constant is undecided."""
    m, f = model.registered('DEC2HEX')
    n = 0
    for num in ROUNDTRIP_NUMBERS:
        for places in (None, 10):
            case = {'n': num, 'places': places}
            try:
                outs = H.run_function(model, H.registry_func(model, 'DEC2HEX'), lambda: [Const(num)] + ([Const(places)] if places else []))
                if len(outs) != 1 or outs[0].imprecise or outs[0].kind != 'return' or not isinstance(outs[0].value, (Const, Err)):
                    res.ob('R3', 'DEC2HEX', case, True, 'undecided: %s' % '; '.join(H.describe(outs))[:120])
                    continue
                h = outs[0].value
                want = format(num % 2 ** 40, 'X')
                want = want.rjust(places, '0') if places else want
                if isinstance(h, Err) or not isinstance(h.value, str):
                    back = None
                else:
                    outs2 = H.run_function(model, H.registry_func(model, 'HEX2DEC'), lambda: [Const(h.value)])
                    if len(outs2) != 1 or outs2[0].imprecise or outs2[0].kind != 'return' or not isinstance(outs2[0].value, (Const, Err)):
                        res.ob('R3', 'DEC2HEX', case, True, 'undecided: %s' % '; '.join(H.describe(outs2))[:120])
                        continue
                    back = outs2[0].value
            except Unmodelled as e:
                res.ob('R3', 'DEC2HEX', case, True, 'undecided: %s' % e)
                continue
            n += 1
            ok = isinstance(back, Const) and back.value == num and not isinstance(back.value, bool) and isinstance(h, Const) and h.value == want
            res.ob('R3', 'DEC2HEX', dict(case, digits=repr(h), back=repr(back)), ok)
            if not ok:
                res.violation('R3', 'function:DEC2HEX:round-trip', m.where(f),
                              'DEC2HEX(%d%s) gives %r and HEX2DEC of that gives %r; the 40-bit two\'s-complement digits of %d are %r and '
                              'HEX2DEC(DEC2HEX(n)) = n' % (num, ', %d' % places if places else '', h, back, num, want),
                              case=case, func=f.name)
    res.soft_floor('DEC2HEX/HEX2DEC constant round trips decided', n, 30)
    # DECIMAL(BASE(n, r), r) = n at both ends of the radix range and in between; ARABIC(ROMAN(n, form)) = n for every form (a whole-valued
    # float form counting like the integer)
    n2 = 0
    cases = [('BASE', 'DECIMAL', (num, r), (r,)) for r in (2, 3, 10, 16, 35, 36) for num in (0, 1, r - 1, r, 255, r * r - 1, 46655)]
    cases += [('ROMAN', 'ARABIC', (num, form), ()) for num in (1, 4, 9, 14, 40, 90, 400, 499, 1994, 3999) for form in (0, 1, 2, 3, 4)]
    cases += [('ROMAN', 'ARABIC', (num, form), ()) for num in (499, 1994) for form in (0.0, 2.0, 4.0)]
    for fwd, back, args, extra in cases:
        if fwd not in model.registry or back not in model.registry:
            continue
        m2, f2 = model.registered(fwd)
        case = {'call': '%s%r' % (fwd, args)}
        try:
            o1 = H.run_function(model, H.registry_func(model, fwd), lambda: [Const(a) for a in args])
            if len(o1) != 1 or o1[0].imprecise or not (o1[0].kind == 'raise' or isinstance(o1[0].value, (Const, Err))):
                res.ob('R3', fwd, case, True, 'undecided: %s' % '; '.join(H.describe(o1))[:100])
                continue
            if o1[0].kind == 'raise' or isinstance(o1[0].value, Err) or not isinstance(o1[0].value.value, str):
                n2 += 1
                res.ob('R3', fwd, case, False, H.describe(o1)[:1])
                res.violation('R3', 'function:%s:round-trip' % fwd, m2.where(f2),
                              '%s%r %s; it must give the digits of the number, which %s turns back into %r'
                              % (fwd, args, H.describe(o1)[0], back, args[0]), case=case, func=f2.name)
                continue
            text = o1[0].value.value
            if fwd == 'ROMAN' and args[1] != 0:
                # a concise form need not be accepted by ARABIC, but it denotes n: read by the subtractive rule (a smaller symbol in front of
                # a larger one is subtracted)
                n2 += 1
                vals = {'I': 1, 'V': 5, 'X': 10, 'L': 50, 'C': 100, 'D': 500, 'M': 1000}
                ok = bool(text) and all(ch in vals for ch in text)
                if ok:
                    total = 0
                    for i_, ch in enumerate(text):
                        v_ = vals[ch]
                        total += -v_ if any(vals[c2] > v_ for c2 in text[i_ + 1:i_ + 2]) else v_
                    ok = total == args[0]
                res.ob('R3', fwd, dict(case, text=text), ok)
                if not ok:
                    res.violation('R3', 'function:%s:round-trip' % fwd, m2.where(f2),
                                  '%s%r gives %r, which does not denote %r' % (fwd, args, text, args[0]), case=case, func=f2.name)
                continue
            o2 = H.run_function(model, H.registry_func(model, back), lambda: [Const(text)] + [Const(a) for a in extra])
            if len(o2) != 1 or o2[0].imprecise or o2[0].kind != 'return' or not isinstance(o2[0].value, (Const, Err)):
                res.ob('R3', fwd, case, True, 'undecided: %s' % '; '.join(H.describe(o2))[:100])
                continue
        except Unmodelled as e:
            res.ob('R3', fwd, case, True, 'undecided: %s' % e)
            continue
        n2 += 1
        b_ = o2[0].value
        ok = isinstance(b_, Const) and b_.value == args[0] and not isinstance(b_.value, bool)
        res.ob('R3', fwd, dict(case, text=text, back=repr(b_)), ok)
        if not ok:
            res.violation('R3', 'function:%s:round-trip' % fwd, m2.where(f2),
                          '%s%r gives %r and %s of that gives %r, not %r: the conversions are mutually inverse' % (fwd, args, text, back, b_, args[0]),
                          case=case, func=f2.name)
    res.soft_floor('BASE/DECIMAL and ROMAN/ARABIC constant round trips decided', n2, 60)


def _table_nodes(m, f):
    """AST nodes in which a function's tables may be written: the function itself, the module-local helpers it calls and the
    module-level constants those mention (a table hoisted out of the function is still the function's table)."""
    out, seen, todo = [], set(), [f]
    while todo:
        g_ = todo.pop()
        if id(g_) in seen:
            continue
        seen.add(id(g_))
        for node in ast.walk(g_):
            out.append(node)
            if isinstance(node, ast.Name) and isinstance(node.ctx, ast.Load):
                if node.id in m.constants and m.assign_counts.get(node.id, 0) == 1 and id(m.constants[node.id]) not in seen:
                    todo.append(m.constants[node.id])
                elif node.id in m.functions and isinstance(m.functions[node.id], ast.FunctionDef):
                    todo.append(m.functions[node.id])
    return out


def _r4(model, res):
    m, f = model.registered('ROMAN')
    m2, f2 = model.registered('ARABIC')
    pairs = None
    for node in _table_nodes(m, f):
        if isinstance(node, ast.Tuple) and node.elts and all(isinstance(e, ast.Tuple) and len(e.elts) == 2 for e in node.elts):
            try:
                pairs = [tuple(ast.literal_eval(e)) for e in node.elts]
            except Exception:
                pass
    amap = None
    for node in _table_nodes(m2, f2):
        if isinstance(node, ast.Dict) and node.keys and all(isinstance(kk, ast.Constant) and isinstance(kk.value, str) for kk in node.keys):
            try:
                amap = dict((kk.value, ast.literal_eval(v)) for kk, v in zip(node.keys, node.values))
            except Exception:
                pass
    if amap is None:
        # the map written some other way (dict(zip(...)), a comprehension): evaluate the expression
        from ..absint import DictV
        cands = [node.value for node in ast.walk(f2) if isinstance(node, ast.Assign)] + \
            [m2.constants[n_.id] for n_ in ast.walk(f2) if isinstance(n_, ast.Name) and n_.id in m2.constants]
        for val_ in cands:
            if isinstance(val_, (ast.Call, ast.DictComp)):
                node = ast.Assign(targets=[], value=val_)
                try:
                    v = Interp(model).const_expr(m2, node.value)
                except Exception:
                    continue
                if isinstance(v, DictV) and v.pairs and all(isinstance(a, Const) and isinstance(a.value, str) and isinstance(b, Const)
                                                            and isinstance(b.value, int) for a, b in v.pairs):
                    amap = dict((a.value, b.value) for a, b in v.pairs)
    if pairs is None or amap is None:
        res.ob('R4', 'ROMAN/ARABIC', 'numeral tables', True, 'undecided: tables not in a recognised shape')
        res.notes.append('C17.R4: ROMAN numeral pairs or ARABIC numeral map not in a recognised shape; table agreement undecided')
        return
    want = {'M': 1000, 'D': 500, 'C': 100, 'L': 50, 'X': 10, 'V': 5, 'I': 1}
    rom = dict((g, v) for v, g in pairs)
    ok = rom == want and [v for v, g in pairs] == sorted(want.values(), reverse=True)
    res.ob('R4', 'ROMAN', 'base numeral pairs are the seven Roman numerals in descending order', ok, pairs)
    if not ok:
        res.violation('R4', 'function:ROMAN:numerals', m.where(f), 'ROMAN\'s numeral table %s is not the seven numerals M..I in descending order' % (pairs,), func=f.name)
    for g, v in sorted(amap.items()):
        if len(g) == 1:
            ok = want.get(g) == v
            res.ob('R4', 'ARABIC', '%s = %s' % (g, v), ok)
            if not ok:
                res.violation('R4', 'function:ARABIC:numeral:%s' % g, m2.where(f2), 'ARABIC maps %s to %s; ROMAN uses %s' % (g, v, want.get(g)), func=f2.name)
        elif len(g) == 2 and g[0] in want and g[1] in want:
            ok = v == want[g[1]] - want[g[0]]
            res.ob('R4', 'ARABIC', '%s = %s (difference of %s and %s)' % (g, v, g[1], g[0]), ok)
            if not ok:
                res.violation('R4', 'function:ARABIC:numeral:%s' % g, m2.where(f2),
                              'ARABIC maps %s to %s; it must be %s - %s = %d' % (g, v, g[1], g[0], want[g[1]] - want[g[0]]), func=f2.name)
    missing = [g for g in want if g not in amap]
    res.ob('R4', 'ARABIC', 'all seven numerals present', not missing, missing)
    if missing:
        res.violation('R4', 'function:ARABIC:numeral-missing', m2.where(f2), 'ARABIC\'s map lacks %s' % missing, func=f2.name)


def _r5_r6(model, res):
    m, f = model.registered('BASE')
    n_ok = 0

    def alphabet_of(base):
        r = model.resolve_attr_chain(m, base) if isinstance(base, (ast.Name, ast.Attribute)) else None
        if isinstance(base, ast.Constant) and isinstance(base.value, str):
            return base.value
        if r and r[0] == 'const' and isinstance(r[3], ast.Constant) and isinstance(r[3].value, str):
            return r[3].value
        return None
    # every lookup of a digit in a text constant, wherever the digits are assembled (join over a comprehension, concatenation in a loop)
    seen = set()
    for node in walk_no_defs(f):
        if isinstance(node, ast.Subscript) and not isinstance(node.slice, ast.Slice):
            val = alphabet_of(node.value)
            if val is None or len(val) < 2:
                continue
            seen.add(id(node))
            ok = len(val) >= 36 and val[:36].upper() == '0123456789ABCDEFGHIJKLMNOPQRSTUVWXYZ'
            n_ok += 1
            res.ob('R5', 'BASE', 'digit rendering %s' % src(node), ok, 'alphabet %r' % val)
            if not ok:
                res.violation('R5', 'function:BASE:digit-rendering', m.where(node),
                              'BASE renders a digit with %s over the alphabet %r: digits above 9 need one letter each (A=10 .. Z=35) in order, '
                              'otherwise DECIMAL cannot read the text back' % (src(node), val), func=f.name)
    joins = [n for n in walk_no_defs(f) if isinstance(n, ast.Call) and isinstance(n.func, ast.Attribute) and n.func.attr == 'join']
    for j in joins:
        if not j.args or not isinstance(j.args[0], (ast.GeneratorExp, ast.ListComp)):
            continue
        elt = j.args[0].elt
        if id(elt) in seen:
            continue
        n_ok += 1
        res.ob('R5', 'BASE', 'digit rendering %s' % src(elt), False, src(elt))
        res.violation('R5', 'function:BASE:digit-rendering', m.where(j),
                      'BASE renders a digit with %s: digits above 9 need one letter each (A=10 .. Z=35), otherwise 255 in base 16 is "1515" '
                      'and DECIMAL cannot read it back' % src(elt), func=f.name)
    res.soft_floor('digit rendering sites in BASE', n_ok, 1)
    FLOAT_CALLS = ('math.log', 'math.log10', 'math.log2', 'math.pow', 'math.sqrt', 'math.exp', 'float', 'math.fmod')
    for name in ('BASE', 'DECIMAL', 'DEC2HEX', 'HEX2DEC'):
        mm, ff = model.registered(name)
        bad = []
        for node in walk_no_defs(ff):
            if isinstance(node, ast.Call) and (sa.call_name(node) or '') in FLOAT_CALLS:
                bad.append(node)
            if isinstance(node, ast.BinOp) and isinstance(node.op, ast.Div):
                bad.append(node)
        res.ob('R6', name, 'no floating-point operation', not bad, [src(b) for b in bad])
        if bad:
            res.violation('R6', 'function:%s:floating-point' % name, mm.where(bad[0]),
                          '%s converts between radices with a floating-point operation (%s): results are off by one digit where the float '
                          'rounds the wrong way' % (name, src(bad[0])), func=ff.name)


def _contains_atom(v, op, argnames):
    if isinstance(v, Atom):
        if v.op == op and [getattr(a, 'name', repr(a)) for a in v.args] == argnames:
            return True
        return any(_contains_atom(a, op, argnames) for a in v.args)
    return False


def _ops(v, acc=None):
    acc = acc if acc is not None else []
    if isinstance(v, Atom):
        acc.append(v.op)
        for a in v.args:
            _ops(a, acc)
    return acc


def _r7(model, res, E):
    m, f = model.registered('MOD')
    outs = H.run_function(model, H.registry_func(model, 'MOD'), lambda: [Sym('int', 'n'), Sym('int', 'd')])
    for o in outs:
        if o.imprecise:
            continue
        zero = any(isinstance(s, Atom) and ((s.op == 'eq' and alt is True) or (s.op == 'ne' and alt is False)) for (t, alt, s) in o.notes)
        if zero:
            ok = o.kind == 'return' and isinstance(o.value, Err) and o.value.name == E['#DIV/0!']
            res.ob('R7', 'MOD', 'zero divisor', ok, repr(o))
            if not ok:
                res.violation('R7', 'function:MOD:zero-divisor', m.where(f), 'MOD with a zero divisor must give #DIV/0!; got %r' % (o,), func=f.name)
            continue
        ops = _ops(o.value)
        ok = o.kind == 'return' and _contains_atom(o.value, 'mod', ['n', 'd']) and all(x in ('mod', 'abs', 'neg') for x in ops)
        res.ob('R7', 'MOD', {'result': repr(o.value)}, ok)
        if not ok:
            res.violation('R7', 'function:MOD:remainder', m.where(f),
                          'MOD must be built on number %% divisor (floor remainder, sign of the divisor); a trace returns %r' % (o.value,), func=f.name)
    m, f = model.registered('QUOTIENT')
    outs = H.run_function(model, H.registry_func(model, 'QUOTIENT'), lambda: [Sym('int', 'n'), Sym('int', 'd')])
    for o in outs:
        if o.imprecise or any(isinstance(s, Atom) and ((s.op == 'eq' and alt is True) or (s.op == 'ne' and alt is False)) for (t, alt, s) in o.notes):
            continue
        if o.kind == 'return' and o.value.tag == 'err':
            continue        # the zero-divisor exit, however its test is spelled
        v = o.value
        ok = o.kind == 'return' and isinstance(v, Atom) and v.op in ('int', 'math.trunc') and isinstance(v.args[0], Atom) and v.args[0].op == 'truediv' and \
            [getattr(a, 'name', None) for a in v.args[0].args] == ['n', 'd']
        res.ob('R7', 'QUOTIENT', {'result': repr(v)}, ok)
        if not ok:
            res.violation('R7', 'function:QUOTIENT:truncation', m.where(f), 'QUOTIENT must be int(number / divisor) (truncation); got %r' % (v,), func=f.name)
    _factorial_table(model, res)
    m, f = model.registered('FACT')
    outs = H.run_function(model, H.registry_func(model, 'FACT'), lambda: [Sym('int', 'n')])
    for o in outs:
        if o.imprecise or o.kind != 'return' or o.value.tag == 'err':
            continue
        v = o.value
        ok = isinstance(v, Atom) and v.op == 'math.factorial' and isinstance(v.args[0], Atom) and v.args[0].op == 'int' and getattr(v.args[0].args[0], 'name', None) == 'n'
        res.ob('R7', 'FACT', {'result': repr(v)}, ok)
        if not ok:
            res.violation('R7', 'function:FACT:factorial', m.where(f), 'FACT must be math.factorial(int(n)); got %r' % (v,), func=f.name)
    m, f = model.registered('ROUND')
    outs = H.run_function(model, H.registry_func(model, 'ROUND'), lambda: [Sym('float', 'x'), Sym('int', 'k')])
    for o in outs:
        if o.imprecise or o.kind != 'return' or o.value.tag == 'err':
            continue
        v = o.value
        ok = isinstance(v, Atom) and v.op == 'round' and [getattr(a, 'name', None) for a in v.args] == ['x', 'k']
        res.ob('R7', 'ROUND', {'result': repr(v)}, ok)
        if not ok:
            res.violation('R7', 'function:ROUND:round', m.where(f), 'ROUND must be round(number, digits); got %r' % (v,), func=f.name)
    # multiples of a significance / of 10^-digits: the quotient is rounded with floor/ceil of the true quotient; float floor-division and
    # modulo work on the exact binary values (1 // 0.1 is 9.0, not 10) and land one unit off whenever the number is already a multiple
    for name in ('FLOOR', 'CEILING', 'ROUNDUP', 'ROUNDDOWN'):
        if name not in model.registry:
            continue
        m, f = model.registered(name)
        try:
            outs = H.run_function(model, H.registry_func(model, name), lambda: [Sym('float', 'x'), Sym('float', 's')])
        except Unmodelled as e:
            res.ob('R7', name, 'rounding construction', True, 'undecided: %s' % e)
            continue
        for o in outs:
            if o.imprecise or o.kind != 'return' or o.value.tag == 'err' or isinstance(o.value, Const):
                continue
            bad = [x for x in _ops(o.value) if x in ('floordiv', 'mod', 'math.fmod', 'math.remainder')]
            # the quotient handed to floor / ceil is the true one: rounded first (round(q, 9) to hide binary noise), every number within the
            # rounding tolerance of a multiple is moved onto it and comes out on the wrong side (ROUNDDOWN(2.9999999999, 0) = 3)
            snapped = [t_ for t_ in _subterms(o.value) if isinstance(t_, Atom) and t_.op.split('.')[-1] in ('ceil', 'floor', 'trunc')
                       and any(isinstance(u_, Atom) and u_.op == 'round' for a_ in t_.args for u_ in _subterms(a_))]
            res.ob('R7', name, {'floor/ceil of the unrounded quotient': repr(o.value)[:80]}, not snapped)
            if snapped:
                res.violation('R7', 'function:%s:quotient-rounded-before-floor-ceil' % name, m.where(f),
                              '%s applies %s to a quotient that was rounded first (%r): a number closer to a multiple than the rounding tolerance, '
                              'but not on it, is moved onto the multiple and the result is the multiple on the wrong side'
                              % (name, snapped[0].op, snapped[0]), func=f.name)
            res.ob('R7', name, {'result': repr(o.value)[:80]}, not bad)
            if bad:
                res.violation('R7', 'function:%s:float-floor-division' % name, m.where(f),
                              '%s computes %r: floor-division / modulo of floats act on the exact binary values (1 // 0.1 is 9.0), so a number that '
                              'is already a multiple of a decimal significance comes out one unit too low; the adjacent multiple must come from '
                              'floor/ceil of the true quotient' % (name, o.value), func=f.name)
    # ROUNDUP / ROUNDDOWN scale by 10**digits for every digits: a precomputed table of powers stands for 10**i on the whole range of
    # indices python accepts for it - negative ones included (t[-2] is the last but one entry, not 10**-2)
    from ..absint import ListV as _ListV
    for name in ('ROUNDUP', 'ROUNDDOWN', 'ROUND'):
        if name not in model.registry:
            continue
        m, f = model.registered(name)
        try:
            outs = H.run_function(model, H.registry_func(model, name), lambda: [Sym('float', 'x'), Sym('int', 'k')])
        except Unmodelled as e:
            res.ob('R7', name, 'scale factor', True, 'undecided: %s' % e)
            continue
        seen_tables = set()
        for o in outs:
            if o.kind != 'return' or o.imprecise:
                continue
            for t in _subterms(o.value):
                if isinstance(t, Atom) and t.op == 'item' and len(t.args) == 2 and isinstance(t.args[0], _ListV) and getattr(t.args[1], 'name', None) == 'k' \
                        and all(isinstance(i_, Const) for i_ in t.args[0].items):
                    vals = [i_.value for i_ in t.args[0].items]
                    if tuple(vals) in seen_tables:
                        continue
                    seen_tables.add(tuple(vals))
                    bad_idx = [i_ for i_ in range(-len(vals), len(vals)) if vals[i_] != 10 ** i_]
                    res.ob('R7', name, {'table of scale factors': '%d entries' % len(vals)}, not bad_idx, 'differs from 10**i at i = %s' % bad_idx[:4] if bad_idx else '')
                    if bad_idx:
                        res.violation('R7', 'function:%s:scale-table' % name, m.where(f),
                                      '%s takes its scale factor from a table indexed by the digits argument; for digits = %d the table gives %r '
                                      'where 10**digits is %r (a negative index counts from the end of the table): the result is then not a multiple '
                                      'of 10^-digits' % (name, bad_idx[0], vals[bad_idx[0]], 10 ** bad_idx[0]), case={'digits': bad_idx[0]}, func=f.name)
    # an omitted significance means 1: CEILING(x) and FLOOR(x) are CEILING(x, 1) and FLOOR(x, 1) on every trace
    for name in ('CEILING', 'FLOOR'):
        if name not in model.registry:
            continue
        m, f = model.registered(name)
        try:
            o1 = H.run_function(model, H.registry_func(model, name), lambda: [Sym('float', 'x')])
            o2 = H.run_function(model, H.registry_func(model, name), lambda: [Sym('float', 'x'), Const(1)])
        except Unmodelled as e:
            res.ob('R7', name, 'default significance', True, 'undecided: %s' % e)
            continue
        if any(o.imprecise for o in o1 + o2):
            res.ob('R7', name, 'default significance', True, 'undecided (unmodelled construct)')
            continue

        def sig(outs):
            out = set()
            for o in outs:
                conds = tuple(sorted('%r=%s' % (s_, a_) for (t_, a_, s_) in o.notes if isinstance(s_, Atom) and 'x:' in repr(s_)))
                out.add((o.kind, repr(o.value), conds))
            return out
        ok = sig(o1) == sig(o2)
        res.ob('R7', name, '%s(x) = %s(x, 1)' % (name, name), ok, H.describe(o1)[:2])
        if not ok:
            res.violation('R7', 'function:%s:default-significance' % name, m.where(f),
                          '%s with the significance omitted differs from %s(x, 1): %s vs %s - the adjacent integer on the documented side is '
                          'the multiple of 1' % (name, name, sorted(sig(o1) - sig(o2))[:2], sorted(sig(o2) - sig(o1))[:2]), func=f.name)
    # HEX2DEC: the text goes unchanged into int(., 16)
    m, f = model.registered('HEX2DEC')
    outs = H.run_function(model, H.registry_func(model, 'HEX2DEC'), lambda: [Sym('str', 'H')])
    n = 0
    for o in outs:
        if o.imprecise:
            continue
        n += 1
        texts = [t for (t, alt, s) in o.notes if t.startswith('int(') or t.startswith('float(')]
        ok = all(t.startswith('int(H:str') for t in texts) and bool(texts)
        res.ob('R7', 'HEX2DEC', {'parse decisions': texts}, ok)
        if not ok:
            res.violation('R7', 'function:HEX2DEC:parse', m.where(f),
                          'HEX2DEC must hand its text argument unchanged to int(text, 16); a trace decides %s first - hexadecimal text that '
                          'also looks like a number (e.g. "1E5") is then read as that number' % texts, func=f.name)
        if o.kind == 'return' and isinstance(o.value, Atom):
            pass
    res.soft_floor('HEX2DEC traces', n, 2)
    # DECIMAL: the digits go unchanged into int(., radix)
    m, f = model.registered('DECIMAL')
    outs = H.run_function(model, H.registry_func(model, 'DECIMAL'), lambda: [Sym('str', 'T'), Sym('int', 'B')])
    n = 0

    def radix_parses(v, acc):
        if isinstance(v, Atom):
            if v.op == 'int' and len(v.args) == 2:
                acc.append(v)
            for a in v.args:
                radix_parses(a, acc)
        return acc
    for o in outs:
        if o.imprecise or o.kind != 'return' or o.value.tag == 'err':
            continue
        n += 1
        ps = radix_parses(o.value, [])
        ok = bool(ps) and all(isinstance(p_.args[0], Sym) and p_.args[0].name == 'T' and getattr(p_.args[1], 'name', None) == 'B' for p_ in ps)
        res.ob('R7', 'DECIMAL', {'result': repr(o.value)[:80]}, ok)
        if not ok:
            res.violation('R7', 'function:DECIMAL:parse', m.where(f),
                          'DECIMAL must hand its text argument unchanged to int(text, radix); a trace returns %r - digit strings that also look '
                          'like a number in another notation (e.g. "1E5" in radix 16) are then read as that number and the round trip with BASE breaks'
                          % (o.value,), func=f.name)
    res.soft_floor('DECIMAL traces', n, 1)
