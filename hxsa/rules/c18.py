# -*- coding: utf-8 -*-
"""C18 - lookup functions return the addressed element or an error, never another one (structural clauses)."""
import ast

from ..model import AnalysisError, src
from ..absint import (Interp, Const, Sym, Err, Atom, Top, Func, ListV, Obj, Aff, AffCmp, Raised, Unmodelled, Exc, k)
from .. import abshelp as H, ctx as ctxmod, purity
from .c01 import error_singletons


def run(model, res, tier):
    c = ctxmod.get(model)
    res.explanation = (
        'INDEX, CHOOSE and MATCH are abstractly interpreted with the position arguments as integer linear forms (every comparison with '
        'a constant narrows their interval on the trace) and the arrays symbolic. R1: at every subscript whose index is such a form, '
        'no integer allowed by the interval is negative - otherwise Python would silently address from the end (positions <= 0 give '
        'another element). R2: a trace on which a position is out of range never returns a value (error value or exception only). '
        'R3: on small symbolic arrays (2x3 and 1x3; all element values symbolic, shapes fixed - an instance check, not universal over '
        'shapes) every (row, column) in {omitted, 0, 1, 2, beyond} yields the addressed element / whole row / whole column / whole '
        'array or an error. R4: MATCH type 0 compares text case-insensitively through fnmatch(item.lower(), lookup.lower()) with the '
        'item as subject and the lookup value as pattern, numbers by equality, returns the first hit (1-based) and #N/A otherwise. '
        'MATCH types 1/-1 on sorted data are NOT decided.')
    res.rule('R1', 'no wrap-around indexing: position-derived subscripts cannot be negative')
    res.rule('R2', 'out of range never yields a value')
    res.rule('R3', 'whole row/column/array on 0 or omitted; addressed element otherwise (instance shapes)')
    res.rule('R4', 'MATCH type 0: case-insensitive wildcard roles, first hit, #N/A')
    res.rule('R5', 'no cache or shared state')
    res.rule('R6', 'MATCH type 1 on an ascending / type -1 on a descending array: the position of the largest item <= x / smallest item >= x, #N/A when there is none - on all 7 order types of x against three distinct items')
    res.trusted += ['hxsa abstract interpreter with integer linear forms', 'CPython ast']
    em, singles = error_singletons(model)
    E = dict((msg, n) for n, msg in singles.items())
    H.safely(res, 'R1', 'r1_r2', _r1_r2, model, res)
    H.safely(res, 'R3', 'r3', _r3, model, res)
    H.safely(res, 'R4', 'r4', _r4, model, res, E)
    H.safely(res, 'R1', 'match_sorted', _match_sorted, model, res, E)
    keys = []
    for n in ('INDEX', 'CHOOSE', 'MATCH'):
        m, f = model.registered(n)
        keys.append((m.name, m.qualname_of(f)))
    region = c.cg.reachable(keys)
    res.rule('RX', 'where a function answers "an error rather than a value" by raising, the catch-all of parse() turns every exception class into #ERROR! (shared with C01.R1)')
    from . import c01 as _c01
    H.borrow(res, 'RX', 'catch-all of parse()', lambda tmp: _c01.catch_all_rule(model, tmp, c))
    res.rule('R6', 'the array a lookup function receives for a range is the block between its top-left and bottom-right corners, whichever '
             'two corners were written (range payload: min/max corners per axis; shared with C10.R4)')

    def _corners(tmp):
        from . import c10
        c10._r4({'model': model, 'c': c, 'res': tmp, 'cbs': c10.callbacks(c)})
    H.borrow(res, 'R6', 'range corners', _corners)
    purity.check_region(res, c, 'R5', None, region, 'a lookup function')
    purity.check_memo(res, c, 'R5', region, 'a lookup function')


def _runs(model, name, make_args, flags=None):
    fv = H.registry_func(model, name)
    return H.run_function(model, fv, make_args, flags=flags)


def _r1_r2(model, res):
    cases = [
        ('INDEX', 'row only (1-D or 2-D array)', lambda: [Sym('list', 'ARR'), Aff(1, 0, 'int', 'r')]),
        ('INDEX', 'column only', lambda: [Sym('list', 'ARR'), Const(None), Aff(1, 0, 'int', 'c')]),
        ('INDEX', 'row and column', lambda: [Sym('list', 'ARR'), Aff(1, 0, 'int', 'r'), Aff(1, 0, 'int', 'c')]),
        ('INDEX', 'row, column 0', lambda: [Sym('list', 'ARR'), Aff(1, 0, 'int', 'r'), Const(0)]),
        ('INDEX', 'row 0, column', lambda: [Sym('list', 'ARR'), Const(0), Aff(1, 0, 'int', 'c')]),
        ('INDEX', 'row, column 1', lambda: [Sym('list', 'ARR'), Aff(1, 0, 'int', 'r'), Const(1)]),
        ('CHOOSE', 'three values', lambda: [Aff(1, 0, 'int', 'i'), Sym('str', 'v1'), Sym('str', 'v2'), Sym('str', 'v3')]),
        # positions that arrive as text (a cell or variable holding "-1"): the integer the text spells is the symbolic variable
        ('INDEX', 'row given as text', lambda: [Sym('list', 'ARR'), Sym('str', 'r')]),
        ('INDEX', 'column given as text', lambda: [Sym('list', 'ARR'), Const(None), Sym('str', 'c')]),
        ('INDEX', 'row and column given as text', lambda: [Sym('list', 'ARR'), Sym('str', 'r'), Sym('str', 'c')]),
        # fractional positions (4/2, 0.5): where the code takes the integer part, that part is what must be within the array
        ('INDEX', 'fractional row', lambda: [Sym('list', 'ARR'), Aff(1, 0, 'num', 'r')]),
        ('INDEX', 'fractional column', lambda: [Sym('list', 'ARR'), Const(None), Aff(1, 0, 'num', 'c')]),
        ('INDEX', 'fractional row and column', lambda: [Sym('list', 'ARR'), Aff(1, 0, 'num', 'r'), Aff(1, 0, 'num', 'c')]),
    ]
    n_ev = 0
    for name, label, mk in cases:
        m, f = model.registered(name)
        try:
            outs = _runs(model, name, mk, flags={'int_parse_symbol': True} if 'text' in label else None)
        except Unmodelled as e:
            res.ob('R1', name, label, True, 'undecided: %s' % e)
            res.notes.append('C18.R1 %s %s: %s' % (name, label, e))
            continue
        for o in outs:
            for ev in o.events:
                if ev[0] != 'subscript':
                    continue
                _, base, idx, notes = ev
                if idx.kind == 'num':
                    continue        # a non-integral subscript: python raises TypeError, which is an error result
                n_ev += 1
                box, multi = H.box_of(notes)
                mn = H.int_min(idx, box)
                if multi:
                    res.ob('R1', name, {'case': label, 'index': repr(idx)}, True, 'undecided (relation between two positions)')
                    continue
                ok = mn is not None and mn >= 0
                res.ob('R1', name, {'case': label, 'index': repr(idx), 'smallest possible': None if mn is None else float(mn)}, ok)
                if not ok:
                    var = idx.var
                    res.violation('R1', 'function:%s:wrap-around' % name, m.where(f),
                                  '%s (%s): a subscript is computed as %s and the guards on this path allow it to be %s: Python then addresses '
                                  'from the end of the array, so a position <= 0 silently returns another element instead of an error'
                                  % (name, label, _fmt(idx), 'any negative number' if mn is None else int(mn)), case={'case': label, 'index': repr(idx)},
                                  func=f.name)
            # R2
            oob = [t for (t, alt, s) in o.notes if t.startswith('index ') and ' within ' in t and alt is False]
            if oob and not o.imprecise:
                ok2 = o.kind == 'raise' or (o.kind == 'return' and o.value.tag == 'err')
                res.ob('R2', name, {'case': label, 'out of range': oob[0][:60]}, ok2, repr(o.value))
                if not ok2:
                    res.violation('R2', 'function:%s:out-of-range-value' % name, m.where(f),
                                  '%s (%s): when a position is beyond the array the function returns %r instead of an error' % (name, label, o.value),
                                  case={'case': label}, func=f.name)
    res.soft_floor('position-derived subscripts examined', n_ev, 8)


def _match_sorted(model, res, E):
    """Complete finite quotient: three distinct items in the stated order and x in each of the 7 positions relative to them.  Every trace
    of MATCH whose comparison decisions are consistent with a position must return the position the statement names."""
    m, f = model.registered('MATCH')
    NA = E['#N/A']
    n = 0
    for mt, label in ((1, 'ascending, type 1'), (-1, 'descending, type -1')):
        try:
            outs = _runs(model, 'MATCH', lambda mt=mt: [Sym('int', 'X'), ListV([Sym('int', 'A0'), Sym('int', 'A1'), Sym('int', 'A2')]), Const(mt)])
        except Unmodelled as e:
            res.ob('R6', 'MATCH', label, True, 'undecided: %s' % e)
            continue
        if any(o.imprecise for o in outs):
            res.ob('R6', 'MATCH', label, True, 'undecided (unmodelled construct)')
            continue

        def rank(name, p):
            # position on a common scale: items at 1, 3, 5 (in array order), x at p
            return p if name == 'X' else 2 * int(name[1]) + 1

        def holds(atom, p):
            """truth of a comparison atom in world p (None = not about the items/x: free)"""
            if not (isinstance(atom, Atom) and atom.op in ('lt', 'gt', 'le', 'ge', 'eq', 'ne') and len(atom.args) == 2):
                return None
            a, b = atom.args
            if not (isinstance(a, Sym) and isinstance(b, Sym) and a.name in ('X', 'A0', 'A1', 'A2') and b.name in ('X', 'A0', 'A1', 'A2')):
                return None
            ra, rb = rank(a.name, p), rank(b.name, p)
            # in the descending world a larger rank means a smaller value
            va, vb = (ra, rb) if mt == 1 else (-ra, -rb)
            return {'lt': va < vb, 'gt': va > vb, 'le': va <= vb, 'ge': va >= vb, 'eq': va == vb, 'ne': va != vb}[atom.op]
        for p in range(7):
            want = None if p == 0 else (p + 1) // 2        # position of the last item at or before x in array order
            got = set()
            for o in outs:
                consistent = True
                for (t, alt, s_) in o.notes:
                    h = holds(s_, p)
                    if h is not None and h != bool(alt):
                        consistent = False
                        break
                if not consistent:
                    continue
                if o.kind == 'return' and isinstance(o.value, Const):
                    got.add(o.value.value)
                elif o.kind == 'return' and isinstance(o.value, Err):
                    got.add(o.value.name)
                else:
                    got.add('%s %r' % (o.kind, o.value))
            n += 1
            exp = NA if want is None else want
            ok = got == set([exp])
            where = ['x before every item', 'x = item 1', 'x between items 1 and 2', 'x = item 2', 'x between items 2 and 3', 'x = item 3', 'x after every item'][p]
            res.ob('R6', 'MATCH', {'array': label, 'world': where, 'expected': exp}, ok, 'got %s' % sorted(map(str, got)))
            if not ok:
                res.violation('R6', 'function:MATCH:sorted-%s' % ('ascending' if mt == 1 else 'descending'), m.where(f),
                              'MATCH(x, {three distinct items, %s}) with %s (in array order) must give %s; the code gives %s'
                              % (label, where, 'the position %d' % want if want else '#N/A', sorted(map(str, got))),
                              case={'array': label, 'world': where}, func=f.name)
    res.soft_floor('MATCH order-type worlds examined', n, 14)


def _fmt(idx):
    terms = []
    for v, c in sorted(idx.coeffs.items()):
        terms.append('%s%s' % ('' if c == 1 else '%g*' % float(c), {'r': 'row_num', 'c': 'column_num', 'i': 'index'}.get(v, v)))
    s = ' + '.join(terms)
    if idx.const:
        s += ' %+g' % float(idx.const)
    return s


def _r3(model, res):
    m, f = model.registered('INDEX')

    def arr2():
        return ListV([ListV([Sym('int', 'e%d%d' % (i, j)) for j in range(3)]) for i in range(2)])

    def arr2one():
        return ListV([ListV([Sym('int', 'e0%d' % j) for j in range(3)])])

    def arr1():
        return ListV([Sym('int', 'v%d' % j) for j in range(3)])

    def names(v):
        if isinstance(v, ListV):
            return [names(i) for i in v.items]
        if isinstance(v, Sym):
            return v.name
        return repr(v)
    OM = 'omitted'
    n = 0
    for shape, mk, rows, cols in (('2x3', arr2, 2, 3), ('two-dimensional 1x3', arr2one, 1, 3), ('1x3', arr1, 1, 3)):
        for r in (OM, 0, 1, 2, 3):
            for cc in (OM, 0, 1, 2, 3, 4):
                if r == OM and cc == OM:
                    continue
                def args(r=r, cc=cc, mk=mk):
                    a = [mk()]
                    a.append(Const(None) if r == OM else Const(r))
                    if cc != OM:
                        a.append(Const(cc))
                    return a
                try:
                    outs = _runs(model, 'INDEX', args)
                except Unmodelled as e:
                    res.ob('R3', 'INDEX', {'shape': shape, 'row': r, 'col': cc}, True, 'undecided: %s' % e)
                    continue
                n += 1
                if mk is not arr1:
                    full = [['e%d%d' % (i, j) for j in range(cols)] for i in range(rows)]
                    rr = None if r in (OM, 0) else r
                    c2 = None if cc in (OM, 0) else cc
                    if (rr is not None and rr > rows) or (c2 is not None and c2 > cols):
                        want = 'error'
                    elif rr is None and c2 is None:
                        want = full
                    elif rr is None:
                        want = [row[c2 - 1] for row in full]
                    elif c2 is None:
                        want = full[rr - 1]
                    else:
                        want = full[rr - 1][c2 - 1]
                else:
                    # one-dimensional: a single position addresses by position; with two, the array is one row
                    full = ['v0', 'v1', 'v2']
                    if cc == OM:
                        pos = r
                        want = 'error' if pos > 3 else (full if pos == 0 else full[pos - 1])
                    elif r == OM:
                        want = 'error' if cc > 3 else (full if cc == 0 else full[cc - 1])
                    elif cc in (0, 1) and r <= 3 and False:
                        want = None
                    else:
                        want = None     # (row, column) on a one-dimensional array: not constrained by the statement
                if want is None:
                    continue
                for o in outs:
                    if o.imprecise:
                        continue
                    if want == 'error':
                        ok = o.kind == 'raise' or (o.kind == 'return' and o.value.tag == 'err')
                    else:
                        ok = o.kind == 'return' and names(o.value) == want
                    res.ob('R3', 'INDEX', {'shape': shape, 'row': r, 'col': cc, 'expected': want}, ok, repr(o.value))
                    if not ok:
                        res.violation('R3', 'function:INDEX:addressing', m.where(f),
                                      'INDEX on a %s array with row=%s, column=%s must give %s; got %r' % (shape, r, cc, want, o.value),
                                      case={'shape': shape, 'row': r, 'col': cc}, func=f.name)
    res.soft_floor('INDEX addressing cases on instance shapes', n, 30)
    # CHOOSE
    m2, f2 = model.registered('CHOOSE')
    # the values are chosen whole, whatever they are: an array among them is one value, not several
    for i in (1, 2, 3, 4):
        def mkc(i=i):
            return [Const(i), ListV([Sym('int', 'a0'), Sym('int', 'a1')]), Sym('str', 'v2'), ListV([ListV([Sym('int', 'b00')]), ListV([Sym('int', 'b10')])])]
        want = {1: ['a0', 'a1'], 2: 'v2', 3: [['b00'], ['b10']], 4: 'error'}[i]
        try:
            outs = _runs(model, 'CHOOSE', mkc)
        except Unmodelled as e:
            res.ob('R3', 'CHOOSE', {'index': i, 'values': 'array, text, 2-D array'}, True, 'undecided: %s' % e)
            continue
        for o in outs:
            if o.imprecise:
                continue
            if want == 'error':
                ok = o.kind == 'raise' or (o.kind == 'return' and o.value.tag == 'err')
            else:
                ok = o.kind == 'return' and names(o.value) == want
            res.ob('R3', 'CHOOSE', {'index': i, 'values': 'array, text, 2-D array', 'expected': want}, ok, repr(o.value))
            if not ok:
                res.violation('R3', 'function:CHOOSE:whole-values', m2.where(f2),
                              'CHOOSE(%d, {a0,a1}, v2, {b00;b10}) must give %s (each value is chosen whole); got %r' % (i, want, o.value),
                              case={'index': i}, func=f2.name)
    # a single option that is an array is still one option: CHOOSE(1, {a0,a1,a2}) is the array, CHOOSE(2, {a0,a1,a2}) an error
    for i in (1, 2, 3):
        want = ['a0', 'a1', 'a2'] if i == 1 else 'error'
        try:
            outs = _runs(model, 'CHOOSE', lambda i=i: [Const(i), ListV([Sym('int', 'a0'), Sym('int', 'a1'), Sym('int', 'a2')])])
        except Unmodelled as e:
            res.ob('R3', 'CHOOSE', {'index': i, 'values': 'one array'}, True, 'undecided: %s' % e)
            continue
        for o in outs:
            if o.imprecise:
                continue
            if want == 'error':
                ok = o.kind == 'raise' or (o.kind == 'return' and o.value.tag == 'err')
            else:
                ok = o.kind == 'return' and names(o.value) == want
            res.ob('R3', 'CHOOSE', {'index': i, 'values': 'one array', 'expected': want}, ok, repr(o.value))
            if not ok:
                res.violation('R3', 'function:CHOOSE:whole-values', m2.where(f2),
                              'CHOOSE(%d, {a0,a1,a2}) - one option, an array - must give %s; got %r: the array is one value, its items are not '
                              'the options' % (i, want, o.value), case={'index': i, 'values': 'one array'}, func=f2.name)
    # the alternatives that are not addressed play no part - not even when one of them is an error value
    for i, mkc, want in ((1, lambda: [Const(1), Sym('str', 'v1'), Sym('err', 'E')], 'v1'),
                         (2, lambda: [Const(2), Sym('err', 'E'), Sym('str', 'v2')], 'v2'),
                         (1, lambda: [Const(1), Sym('str', 'v1'), ListV([Sym('int', 'a0'), Sym('err', 'E')])], 'v1')):
        try:
            outs = _runs(model, 'CHOOSE', mkc)
        except Unmodelled as e:
            res.ob('R3', 'CHOOSE', {'index': i, 'values': 'an error among the others'}, True, 'undecided: %s' % e)
            continue
        for o in outs:
            if o.imprecise:
                continue
            ok = o.kind == 'return' and getattr(o.value, 'name', None) == want
            res.ob('R3', 'CHOOSE', {'index': i, 'values': 'an error value among the alternatives not addressed', 'expected': want}, ok, repr(o.value))
            if not ok:
                res.violation('R3', 'function:CHOOSE:unaddressed-error', m2.where(f2),
                              'CHOOSE(%d, ...) with an error value among the alternatives that are not addressed must give %s; got %s %r: only the '
                              'addressed value is selected (IF-like use: CHOOSE(k, "n/a", A/B))' % (i, want, o.kind, o.value), case={'index': i}, func=f2.name)
    # the last positions of a long list: with n values every i up to n is addressed (the documented limit of 254 values included)
    for nvals, i in ((254, 254), (254, 253), (100, 100), (254, 1)):
        try:
            outs = _runs(model, 'CHOOSE', lambda nvals=nvals, i=i: [Const(i)] + [Sym('str', 'v%d' % j) for j in range(1, nvals + 1)])
        except Unmodelled as e:
            res.ob('R3', 'CHOOSE', {'index': i, 'values': nvals}, True, 'undecided: %s' % e)
            continue
        outs = [o for o in outs if not o.imprecise]
        if not outs:
            continue
        ok = all(o.kind == 'return' and isinstance(o.value, Sym) and o.value.name == 'v%d' % i for o in outs)
        res.ob('R3', 'CHOOSE', {'index': i, 'values': nvals}, ok, H.describe(outs)[:2])
        if not ok:
            res.violation('R3', 'function:CHOOSE:last-position', m2.where(f2),
                          'CHOOSE(%d, v1 ... v%d) must give v%d (1 <= i <= n addresses vi); got %s' % (i, nvals, i, '; '.join(H.describe(outs)[:2])),
                          case={'index': i, 'values': nvals}, func=f2.name)
    # a fractional index: an error, or the truncated position - never the rounded one (i = 0.6 is < 1 and must not select v1)
    try:
        outs = _runs(model, 'CHOOSE', lambda: [Sym('float', 'i'), Sym('str', 'v1'), Sym('str', 'v2'), Sym('str', 'v3')])
    except Unmodelled as e:
        outs = []
        res.ob('R3', 'CHOOSE', {'index': 'fractional'}, True, 'undecided: %s' % e)

    def ops_of(v, acc):
        if isinstance(v, Atom):
            acc.append(v.op)
            for a in v.args:
                ops_of(a, acc)
        return acc
    for o in outs:
        if o.imprecise or o.kind != 'return' or o.value.tag == 'err':
            continue
        ops = ops_of(o.value, [])
        ok = 'round' not in ops
        res.ob('R3', 'CHOOSE', {'index': 'fractional', 'result': repr(o.value)[:80]}, ok)
        if not ok:
            res.violation('R3', 'function:CHOOSE:rounded-index', m2.where(f2),
                          'CHOOSE with a fractional index selects a value through round() (%r): an index below 1 such as 0.6 selects v1 and 1.75 '
                          'selects v2, although only 1 <= i <= n addresses vi (a fraction is an error, or at most truncated)' % (o.value,),
                          func=f2.name)
    for i in (-1, 0, 1, 2, 3, 4):
        outs = _runs(model, 'CHOOSE', lambda i=i: [Const(i), Sym('str', 'v1'), Sym('str', 'v2'), Sym('str', 'v3')])
        for o in outs:
            if 1 <= i <= 3:
                ok = o.kind == 'return' and isinstance(o.value, Sym) and o.value.name == 'v%d' % i
            else:
                ok = o.kind == 'raise' or (o.kind == 'return' and o.value.tag == 'err')
            res.ob('R3', 'CHOOSE', {'index': i}, ok, repr(o.value))
            if not ok:
                res.violation('R3', 'function:CHOOSE:addressing', m2.where(f2),
                              'CHOOSE(%d, v1, v2, v3) must give %s; got %r' % (i, 'v%d' % i if 1 <= i <= 3 else 'an error', o.value),
                              case={'index': i}, func=f2.name)


MATCH_TABLE = (
    # lookup text, array, expected position (None = #N/A): case-insensitive, ? one character, * any run, whole item, first hit
    ('ap?', ('apple', 'xapp', 'APP'), 3), ('AP?', ('ap', 'app', 'apq'), 2), ('a*', ('b', 'ab', 'ac'), 2), ('a*e', ('apples', 'apple'), 2),
    ('zz?', ('apple', 'zz'), None), ('a.?', ('axb', 'a.b'), 2), ('a+?', ('aab', 'a+b'), 2), ('apple', ('apples', 'Apple'), 2),
    # line breaks inside a cell are ordinary characters
    ('ap?', ('app\n', 'app'), 2), ('ap?', ('xx', 'ap\n'), 2), ('a*e', ('b', 'a\nle'), 2), ('apple', ('apple\n', 'apple'), 2),
    # ? stands for one character of the item as it is written: letters whose case-folded form is longer (sharp s, ligatures) are one character
    ('stra?e', ('Strand', 'Stra\xdfe'), 2), ('?lm', ('\ufb01lm', 'alm'), 1), ('stra??e', ('Stra\xdfe', 'Strasse'), 2),
)


def _match_table(model, res, m, f, NA):
    """R4 (constant table): MATCH(text, constants, 0) on constant lookups; folding of pure stdlib text functions only.  A run that is not one
    precise outcome is undecided."""
    n = 0
    for look, arr, want in MATCH_TABLE:
        try:
            outs = _runs(model, 'MATCH', lambda: [Const(look), ListV([Const(a) for a in arr]), Const(0)])
        except Unmodelled as e:
            res.ob('R4', 'MATCH', {'lookup': look, 'array': list(arr)}, True, 'undecided: %s' % e)
            continue
        if len(outs) != 1 or outs[0].imprecise or outs[0].kind != 'return':
            res.ob('R4', 'MATCH', {'lookup': look, 'array': list(arr)}, True, 'undecided: %d outcomes' % len(outs))
            continue
        v = outs[0].value
        if want is None:
            ok = isinstance(v, Err) and v.name == NA
        else:
            ok = isinstance(v, Const) and v.value == want and not isinstance(v.value, bool)
        if not isinstance(v, (Err, Const)):
            res.ob('R4', 'MATCH', {'lookup': look, 'array': list(arr)}, True, 'undecided: %r' % (v,))
            continue
        n += 1
        res.ob('R4', 'MATCH', {'lookup': look, 'array': list(arr), 'result': repr(v)}, ok)
        if not ok:
            res.violation('R4', 'function:MATCH:text-table', m.where(f),
                          'MATCH(%r, %r, 0) gives %r; the first item equal to the lookup text without regard to case, with ? = one character and '
                          '* = any run of characters and the whole item compared, is %s' % (look, list(arr), v, 'number %d' % want if want else 'none (#N/A)'),
                          func=f.name)
    res.soft_floor('MATCH table rows decided', n, 8)


def _r4(model, res, E):
    m, f = model.registered('MATCH')
    NA = E['#N/A']

    def lower_of(v, name):
        return isinstance(v, Atom) and v.op in ('lower', 'casefold', 'upper') and len(v.args) == 1 and isinstance(v.args[0], Sym) and v.args[0].name == name

    # text
    try:
        outs = _runs(model, 'MATCH', lambda: [Sym('str', 'X'), ListV([Sym('str', 'A0'), Sym('str', 'A1'), Sym('str', 'A2')]), Const(0)])
    except Unmodelled as e:
        res.ob('R4', 'MATCH', 'text', True, 'undecided: %s' % e)
        res.notes.append('C18.R4: %s' % e)
        outs = []
    n = 0
    for o in outs:
        if o.imprecise:
            continue
        n += 1
        problems = []
        hits = {}
        regex_based = False
        for (t, alt, s) in o.notes:
            if isinstance(s, Atom) and s.op == 'fnmatch':
                subj, pat = s.args[0], s.args[1]
                item = None
                for i in range(3):
                    if lower_of(subj, 'A%d' % i):
                        item = i
                if item is None:
                    problems.append('the subject of the wildcard match is %r, not the lower-cased array item' % (subj,))
                elif not lower_of(pat, 'X'):
                    problems.append('the pattern of the wildcard match is %r, not the lower-cased lookup value' % (pat,))
                else:
                    hits[item] = bool(alt)
            elif isinstance(s, Atom) and s.op == 'eq':
                problems.append('text is compared with == (%r): case-sensitive and without wildcards' % (s,))
            elif isinstance(s, Atom) and s.op in ('re.match', 're.search', 're.fullmatch'):
                regex_based = True        # a hand-built regular expression: judged on the constant table below
            elif isinstance(s, Atom):
                problems.append('decision on %r' % (s,))
            elif s is None and 'in ' in t:
                problems.append('decision "%s" selects a different comparison for some lookup texts' % t[:60])
        if regex_based and not problems:
            n += 1
            res.ob('R4', 'MATCH', {'lookup': 'text', 'trace': 'regular expression'}, True, 'judged on the constant wildcard table')
            continue
        if not problems:
            first = [i for i in sorted(hits) if hits[i]]
            if first:
                want = first[0] + 1
                if not all(j in hits for j in range(first[0])):
                    problems.append('an earlier item was not examined')
                if not (o.kind == 'return' and isinstance(o.value, Const) and o.value.value == want):
                    problems.append('returns %r, expected the position %d of the first matching item' % (o.value, want))
            else:
                if sorted(hits) != [0, 1, 2]:
                    problems.append('not every item was examined before giving up (%s)' % sorted(hits))
                if not (o.kind == 'return' and isinstance(o.value, Err) and o.value.name == NA):
                    problems.append('returns %r when nothing matches, expected #N/A' % (o.value,))
        res.ob('R4', 'MATCH', {'lookup': 'text', 'trace': ['%s' % hits]}, not problems, '; '.join(problems))
        if problems:
            res.violation('R4', 'function:MATCH:text', m.where(f),
                          'MATCH(text, array, 0): %s' % '; '.join(problems[:3]), func=f.name)
    res.soft_floor('MATCH text traces', n, 3)
    _match_table(model, res, m, f, NA)
    if n == 0 and outs:
        # the text branch is not followed precisely (e.g. a pattern assembled character by character): fall back on the structural
        # judgement shared with C11.R3 - a regular expression applied with match()/search() and no end anchor matches prefixes
        from .c11 import _regex_wildcards
        verdict, why = _regex_wildcards(model, m, f)
        res.ob('R4', 'MATCH', 'wildcard lookup matches the whole item', verdict is not False, why)
        if verdict is False:
            res.violation('R4', 'function:MATCH:text', m.where(f),
                          'MATCH(text, array, 0): the wildcard comparison is a regular expression %s: an earlier item that merely starts with '
                          'the lookup text is returned (INDEX(array, MATCH(x, array, 0)) is then not x)' % why, func=f.name)
    # numbers
    outs = _runs(model, 'MATCH', lambda: [Sym('int', 'X'), ListV([Sym('int', 'A0'), Sym('int', 'A1')]), Const(0)])
    for o in outs:
        if o.imprecise:
            continue
        hits = {}
        problems = []
        for (t, alt, s) in o.notes:
            if isinstance(s, Atom) and s.op == 'eq':
                names_ = sorted(getattr(a, 'name', '?') for a in s.args)
                if names_[1] == 'X' and names_[0] in ('A0', 'A1'):
                    hits[int(names_[0][1])] = bool(alt)
                else:
                    problems.append('compares %r' % (s,))
        first = [i for i in sorted(hits) if hits[i]]
        if first:
            ok = o.kind == 'return' and isinstance(o.value, Const) and o.value.value == first[0] + 1
        else:
            ok = o.kind == 'return' and isinstance(o.value, Err) and o.value.name == NA and sorted(hits) == [0, 1]
        res.ob('R4', 'MATCH', {'lookup': 'number', 'trace': '%s' % hits}, ok and not problems, repr(o))
        if not (ok and not problems):
            res.violation('R4', 'function:MATCH:number', m.where(f),
                          'MATCH(number, array, 0) must return the 1-based position of the first equal item, else #N/A; trace %s gives %r %s'
                          % (hits, o.value, '; '.join(problems)), func=f.name)
