# -*- coding: utf-8 -*-
"""C19 - cell labels and row/column indices correspond one-to-one (structural clauses)."""
import ast
from fractions import Fraction

from ..model import AnalysisError, src
from ..callgraph import fmt
from ..paths import walk_no_defs
from ..absint import (Interp, Const, Sym, Err, Atom, Top, Func, ListV, Obj, ClassV, Aff, AffCmp, Raised, Unmodelled, Exc, k)
from .. import abshelp as H, ctx as ctxmod, purity, sa, rx, guards
from . import c01


def cell_module(model):
    for m in model.modules.values():
        if 'extract_label' in m.functions and 'to_label' in m.functions:
            return m
    raise AnalysisError('label helper module (extract_label / to_label) not found (anchor vanished)')


def run(model, res, tier):
    c = ctxmod.get(model)
    m = cell_module(model)
    res.explanation = (
        'R1 the label regex is turned into an automaton (Python $ semantics: also before a final newline) and compared with the label '
        'language [$]letters[$]digits in both directions, with a counter-example string; its four capture groups are in the order '
        '($, letters, $, digits). R2 extract_label is abstractly interpreted on a symbolic label: a non-match decomposes to nothing, a '
        'match yields (row record from the digits group with the marker group before the digits, column record from the letters group '
        'with the leading marker group). R3 the column alphabet constant is A..Z in order and its length is the only radix both column '
        'converters use; the forward converter iterates over all letters of the label. R4 the row converters are extracted as affine '
        'maps: n -> n-1 on n>=1 and r -> str(r+1) on r>=0, mutually inverse. R5 to_label yields [$]column [$]row for all four marker '
        'patterns. R6 the column loop terminates. R7 no cache/shared state. That the two column converters are mutually inverse '
        '(bijective base 26 over all labels) is NOT decided.')
    res.rule('R1', 'label regex language equals the label language; capture groups in order')
    res.rule('R2', 'decomposition roles: digits->row, letters->column, each marker to its own part')
    res.rule('R3', 'alphabet constant and radix agreement; all letters are consumed')
    res.rule('R4', 'row label <-> index are affine inverses')
    res.rule('R5', 'recomposition order and markers')
    res.rule('R6', 'the column index -> label loop terminates')
    res.rule('R7', 'no cache or shared state')
    res.trusted += ['re._parser', 'hxsa regex automata over representative characters', 'hxsa abstract interpreter']
    # each rule group on its own: a construct one of them cannot follow leaves that one undecided, not the others
    H.safely(res, 'R1', 'label regex', _r1, model, res, m)
    H.safely(res, 'R2', 'decomposition', _r2, model, res, c, m)
    H.safely(res, 'R3', 'column converters', _r3, model, res, m)
    H.safely(res, 'R4', 'row converters (exactness)', _r4_exact, model, res, m)
    H.safely(res, 'R4', 'row converters', _r4, model, res, m)
    H.safely(res, 'R5', 'recomposition', _r5, model, res, m)
    H.safely(res, 'R6', 'loop', _r6, model, res, m)
    res.rule('R9', 'constant rows: labels and non-labels through extract_label / to_label, column indices and labels through both converters '
             '(up to four letters and beyond), each compared with the reference the statement gives')
    H.safely(res, 'R9', 'constant rows', _r9_tables, model, res, m)
    # where the package itself decomposes and recomposes labels - the corners of a range - every corner keeps its own parts and markers
    res.rule('R8', 'the corners of a range are recomposed from their own decomposed parts: each cell of the range event carries the marker written '
             'on that corner (shared with C10.R4)')

    def corners(tmp):
        from . import c10
        cbs = c10.callbacks(c)
        c10._r4({'model': model, 'c': c, 'res': tmp, 'cbs': cbs})
    H.borrow(res, 'R8', 'range corners', corners)
    keys = [(m.name, q) for q in m.functions if '.' not in q]
    # the cell and range callbacks are where the decomposed parts and markers are reported to the host: a cell recalled from an earlier
    # reference instead of built from this one's label carries the other reference's markers
    try:
        from . import c10 as _c10
        cbs_ = _c10.callbacks(c)
        keys += [cbs_[k_] for k_ in ('call_cell_value', 'call_range_value') if k_ in cbs_]
    except AnalysisError:
        pass
    region = c.cg.reachable(keys) - set(c.cg.registry_keys)
    purity.check_region(res, c, 'R7', None, region, 'a label helper')
    purity.check_memo(res, c, 'R7', region, 'a label helper')


class _Pattern(str):
    """Pattern text together with the flags it is compiled with (the automata builder reads ``.flags``)."""

    def __new__(cls, text, flags=0):
        o = str.__new__(cls, text)
        o.flags = flags
        return o


def _regex_flags(node):
    """Value of a flags expression written with re.X | re.I | ... (AnalysisError for anything else: the language depends on it)."""
    import re as _re
    if node is None:
        return 0
    if isinstance(node, ast.Constant) and isinstance(node.value, int):
        return node.value
    if isinstance(node, ast.BinOp) and isinstance(node.op, ast.BitOr):
        return _regex_flags(node.left) | _regex_flags(node.right)
    if isinstance(node, ast.Attribute) and isinstance(node.value, ast.Name) and node.value.id == 're' and isinstance(getattr(_re, node.attr, None), int):
        return int(getattr(_re, node.attr))
    raise AnalysisError('flags of the label regex are not a constant expression: %s' % src(node))


def label_regex(model, m):
    """(pattern, node, how it is applied) - the regex extract_label matches the label against."""
    f = m.functions['extract_label']
    for n in walk_no_defs(f):
        if isinstance(n, ast.Call) and isinstance(n.func, ast.Attribute) and n.func.attr in ('match', 'fullmatch', 'search'):
            base = n.func.value
            r = model.resolve_attr_chain(m, base) if isinstance(base, (ast.Name, ast.Attribute)) else None
            if r and r[0] == 'const' and isinstance(r[3], ast.Call) and r[3].args and isinstance(r[3].args[0], ast.Constant):
                flags = _regex_flags(r[3].args[1] if len(r[3].args) > 1 else ([kw.value for kw in r[3].keywords if kw.arg == 'flags'] or [None])[0])
                return _Pattern(r[3].args[0].value, flags), r[3], n.func.attr
            if r and r[0] == 'extattr' and (r[1] + '.' + r[2]) in ('re.match', 're.fullmatch', 're.search') and n.args and isinstance(n.args[0], ast.Constant):
                return n.args[0].value, n, n.func.attr
    raise AnalysisError('the regular expression used by extract_label was not found (anchor vanished)')


class NoRegex(Exception):
    pass


def _r1(model, res, m):
    try:
        pat, node, how = label_regex(model, m)
    except AnalysisError:
        f_ = m.functions['extract_label']
        uses_re = any(isinstance(n, ast.Attribute) and n.attr in ('match', 'fullmatch', 'search', 'compile') for n in ast.walk(f_))
        if uses_re:
            raise
        # a hand-written scanner: the language it accepts is not decided here (R9 runs it on the constant rows)
        res.ob('R1', '%s:extract_label' % m.name, 'label language', True, 'undecided: extract_label uses no regular expression')
        res.notes.append('C19.R1: extract_label uses no regular expression; the accepted language is only sampled by R9')
        return
    site = '%s:extract_label' % m.name
    try:
        L = rx.build(pat)
        S = rx.build(r'[$]?[A-Za-z]+[$]?[0-9]+')
        al = rx.alphabet([L, S])
        extra = rx.difference_witness(L, S, al)
        missing = rx.difference_witness(S, L, al)
    except rx.Unsupported as e:
        res.ob('R1', site, 'undecided', True, str(e))
        res.notes.append('C19.R1: %s' % e)
        return
    # match() anchors only the start; the end must be anchored by the pattern itself.  The automaton is built for the
    # whole-string language, so additionally require an end anchor in the pattern when match/search is used.
    groups, layout = rx.group_nfas(pat, getattr(pat, 'flags', 0))
    anchors = [x[1] for x in layout if x[0] == 'anchor']
    end_anchored = how == 'fullmatch' or any(a.endswith('AT_END') or a.endswith('AT_END_STRING') for a in anchors)
    start_anchored = how in ('match', 'fullmatch') or any('BEGINNING' in a for a in anchors)
    res.ob('R1', site, 'anchored at both ends', end_anchored and start_anchored, 'method=%s anchors=%s' % (how, anchors))
    if not (end_anchored and start_anchored):
        res.violation('R1', site + ':not-anchored', m.where(node),
                      'the label regex is not anchored at %s: strings that merely contain or start with a label are decomposed'
                      % ('the end' if not end_anchored else 'the start'), func='extract_label')
    res.ob('R1', site, 'accepts nothing but labels', extra is None, 'counter-example %r' % (extra,))
    if extra is not None:
        res.violation('R1', site + ':accepts-non-label', m.where(node),
                      'the label regex also accepts %r, which is not a cell label: it must decompose to nothing' % extra, case=extra,
                      func='extract_label')
    res.ob('R1', site, 'accepts every label', missing is None, 'counter-example %r' % (missing,))
    if missing is not None:
        res.violation('R1', site + ':rejects-label', m.where(node), 'the label regex rejects the cell label %r' % missing, case=missing,
                      func='extract_label')
    # groups
    want = {1: r'[$]', 2: r'[A-Za-z]+', 3: r'[$]', 4: r'[0-9]+'}
    ok = sorted(groups) == [1, 2, 3, 4]
    res.ob('R1', site, 'four capture groups', ok, sorted(groups))
    if ok:
        for gnum, gp in sorted(want.items()):
            G = groups[gnum]
            W = rx.build(gp)
            al = rx.alphabet([G, W])
            d1, d2 = rx.difference_witness(G, W, al), rx.difference_witness(W, G, al)
            okg = d1 is None and d2 is None
            res.ob('R1', site, 'group %d is %s' % (gnum, gp), okg, 'counter-examples %r %r' % (d1, d2))
            if not okg:
                res.violation('R1', site + ':group-%d' % gnum, m.where(node),
                              'capture group %d of the label regex must capture %s (counter-example %r)' % (gnum, gp, d1 if d1 is not None else d2),
                              func='extract_label')
    else:
        res.violation('R1', site + ':groups', m.where(node), 'the label regex must have exactly the four capture groups ($, letters, $, digits); found %s' % sorted(groups),
                      func='extract_label')


# text -> None (not a label) or (column absolute?, COLUMN letters in upper case, row absolute?, row number)
LABEL_ROWS = (
    ('A1', (False, 'A', False, 1)), ('$b$7', (True, 'B', True, 7)), ('xfd1048576', (False, 'XFD', False, 1048576)),
    ('aB$12', (False, 'AB', True, 12)), ('$ZZZZ9', (True, 'ZZZZ', False, 9)), ('Q10', (False, 'Q', False, 10)),
    ('', None), ('A', None), ('1', None), ('A1\n', None), ('\nA1', None), ('$$A1', None), ('A$$1', None), ('A 1', None), (' A1', None),
    ('A1 ', None), ('A-1', None), ('A1.0', None), ('A1B', None), ('1A', None), ('$1', None), ('A$', None),
    # letters and digits of other scripts are not label characters
    ('\u03a95', None), ('\xe91', None), ('\xdf3', None), ('A\u0661', None), ('A$\u0661', None), ('C$\uff11\uff12', None),
    ('\uff211', None), ('A\xb2', None),
)
COLUMN_ROWS = (0, 1, 25, 26, 27, 51, 52, 701, 702, 703, 16383, 18277, 18278, 18279, 475253, 475254, 12356629, 12356630)


def _ref_column_label(n):
    out = ''
    n += 1
    while n > 0:
        n, r = divmod(n - 1, 26)
        out = chr(65 + r) + out
    return out


def _r9_tables(model, res, m):
    """Constant rows; only pure text / integer operations on constants are folded.  A run that is not one precise outcome is undecided."""
    n = 0

    def one(fname, args):
        f = m.functions.get(fname)
        if f is None:
            return None
        try:
            outs = H.run_function(model, Func(m, f), lambda: [Const(a) for a in args])
        except Unmodelled:
            return None
        if len(outs) != 1 or outs[0].imprecise:
            return None
        return outs[0]
    for text, want in LABEL_ROWS:
        o = one('extract_label', [text])
        if o is None:
            res.ob('R9', 'extract_label', {'text': text}, True, 'undecided')
            continue
        got = None
        decided = True
        if o.kind == 'return' and isinstance(o.value, ListV):
            if len(o.value.items) == 0:
                got = None
            elif len(o.value.items) == 2 and all(isinstance(x, Obj) for x in o.value.items):
                rowp, colp = o.value.items
                try:
                    vals = [colp.attrs['is_absolute'], colp.attrs['label'], rowp.attrs['is_absolute'], rowp.attrs['label'],
                            colp.attrs['index'], rowp.attrs['index']]
                except KeyError:
                    decided = False
                    vals = []
                if decided and all(isinstance(v, Const) for v in vals):
                    got = (bool(vals[0].value), str(vals[1].value).upper(), bool(vals[2].value), int(str(vals[3].value)) if str(vals[3].value).isdigit() and str(vals[3].value).isascii() else vals[3].value,
                           vals[4].value, vals[5].value)
                else:
                    decided = False
            else:
                decided = False
        elif o.kind == 'raise':
            got = 'raise %r' % (o.value,)
        else:
            decided = False
        if not decided:
            res.ob('R9', 'extract_label', {'text': text}, True, 'undecided: %r' % (o.value,))
            continue
        n += 1
        if want is None:
            ok = got is None
            exp = 'nothing (not a cell label)'
        else:
            import functools
            col_index = functools.reduce(lambda a_, ch: a_ * 26 + (ord(ch) - 64), want[1], 0) - 1
            ok = isinstance(got, tuple) and got[:4] == want and got[4] == col_index and got[5] == want[3] - 1
            exp = 'column %s%s (index %d), row %s%d (index %d)' % ('$' if want[0] else '', want[1], col_index, '$' if want[2] else '', want[3], want[3] - 1)
        res.ob('R9', 'extract_label', {'text': text, 'got': repr(got)[:80]}, ok)
        if not ok:
            res.violation('R9', '%s:extract_label:row:%s' % (m.name, ascii(text)), m.where(m.functions['extract_label']),
                          'extract_label(%s) gives %s; the statement prescribes %s' % (ascii(text), repr(got)[:120], exp), func='extract_label')
        # recomposition of what was decomposed
        if want is not None and ok and 'to_label' in m.functions:
            def call(interp, st, text=text):
                parts = interp.call(Func(m, m.functions['extract_label']), [Const(text)])
                return interp.call(Func(m, m.functions['to_label']), list(parts.items))
            try:
                outs = Interp(model).run(call)
            except Unmodelled:
                outs = []
            if len(outs) == 1 and not outs[0].imprecise and outs[0].kind == 'return' and isinstance(outs[0].value, Const):
                n += 1
                good = outs[0].value.value == text.upper()
                res.ob('R9', 'to_label', {'text': text, 'recomposed': outs[0].value.value}, good)
                if not good:
                    res.violation('R9', '%s:to_label:row:%s' % (m.name, ascii(text)), m.where(m.functions['to_label']),
                                  'decomposing %r and recomposing the parts gives %r; the statement prescribes the same label in upper case, %r'
                                  % (text, outs[0].value.value, text.upper()), func='to_label')
    for idx in COLUMN_ROWS:
        lab = _ref_column_label(idx)
        o = one('column_index_to_label', [idx])
        if o is not None and o.kind == 'return' and isinstance(o.value, Const):
            n += 1
            ok = o.value.value == lab
            res.ob('R9', 'column_index_to_label', {'index': idx, 'label': o.value.value}, ok)
            if not ok:
                res.violation('R9', '%s:column_index_to_label:row' % m.name, m.where(m.functions['column_index_to_label']),
                              'column_index_to_label(%d) gives %r; in bijective base 26 (A=0, Z=25, AA=26, ...) it is %r'
                              % (idx, o.value.value, lab), func='column_index_to_label')
        else:
            res.ob('R9', 'column_index_to_label', {'index': idx}, True, 'undecided')
        for spelled in (lab, lab.lower()):
            o = one('column_label_to_index', [spelled])
            if o is not None and o.kind == 'return' and isinstance(o.value, Const):
                n += 1
                ok = o.value.value == idx and not isinstance(o.value.value, bool)
                res.ob('R9', 'column_label_to_index', {'label': spelled, 'index': o.value.value}, ok)
                if not ok:
                    res.violation('R9', '%s:column_label_to_index:row' % m.name, m.where(m.functions['column_label_to_index']),
                                  'column_label_to_index(%r) gives %r; in bijective base 26 (A=0, Z=25, AA=26, ...) it is %d'
                                  % (spelled, o.value.value, idx), func='column_label_to_index')
            else:
                res.ob('R9', 'column_label_to_index', {'label': spelled}, True, 'undecided')
    res.soft_floor('constant rows decided', n, 60)


def _marker_is(v, want, notes=()):
    """Is the marker value ``v`` that of regex group ``want``?  Either an expression of that group (== '$' / took part), or - on a trace that
    has already decided whether the optional group took part - the constant that decision implies."""
    if _marker_group(v) == want:
        return True
    if isinstance(v, Const) and isinstance(v.value, bool):
        for (t, alt, s_) in notes:
            if isinstance(s_, Atom) and s_.op in ('took-part', 'absent') and isinstance(s_.args[0], Atom) and s_.args[0].op == 'group' \
                    and s_.args[0].args[1].value == want and isinstance(alt, bool):
                took = alt if s_.op == 'took-part' else (not alt)
                if took is False and v.value is False:
                    return True
    return False


def _marker_group(v):
    if isinstance(v, Atom) and v.op == 'took-part' and isinstance(v.args[0], Atom) and v.args[0].op == 'group':
        return v.args[0].args[1].value      # R1 has established that the marker groups can only hold '$'
    if isinstance(v, Atom) and v.op == 'eq':
        for a, b in (v.args, tuple(reversed(v.args))):
            if isinstance(a, Atom) and a.op == 'group' and isinstance(b, Const) and b.value == '$':
                return a.args[1].value
    return None


def _r2(model, res, c, m):
    f = m.functions['extract_label']
    fv = Func(m, f)
    site = '%s:extract_label' % m.name
    try:
        outs = H.run_function(model, fv, lambda: [Sym('str', 'LAB')], opaque=H.cell_opaque(model))
    except Unmodelled as e:
        res.ob('R2', site, 'undecided', True, str(e))
        return
    n = 0
    if not any((' match ' in t or ' fullmatch ' in t or ' search ' in t) for o in outs for (t, alt, s) in o.notes) and \
            not any(isinstance(x, ast.Attribute) and x.attr in ('match', 'fullmatch', 'search') for x in ast.walk(f)):
        # a hand-written scanner: its exits are not told apart by a match decision; the constant rows of R9 run it on labels and non-labels
        res.ob('R2', site, 'decomposition roles', True, 'undecided: extract_label uses no regular expression (see R9)')
        res.notes.append('C19.R2: extract_label uses no regular expression; decomposition is decided on the constant rows of R9 only')
        return
    for o in outs:
        if o.imprecise:
            continue
        matched = None
        for (t, alt, s) in o.notes:
            if ' match ' in t or ' fullmatch ' in t or ' search ' in t:
                matched = bool(alt)
                # what the regex judges is the text handed in - not a case-mapped or trimmed copy of it: upper() turns the long s
                # of "\u017f1" into S, strip() turns " A1" into A1, and then a string that is no label decomposes like one
                subject = t.rsplit(' ', 1)[-1]
                oks = subject == 'LAB:str'
                res.ob('R2', site, 'the label regex is applied to the text itself', oks, subject)
                if not oks:
                    res.violation('R2', site + ':judges-a-copy', m.where(f),
                                  'the label regex is applied to %s instead of the text handed in: a transformed copy can be a label where '
                                  'the text is not (upper() maps "\u017f1" to "S1", "\u01311" to "I1"), so strings that are not cell labels '
                                  'no longer decompose to nothing' % subject.replace('LAB:str', 'label'), func='extract_label')
        n += 1
        if matched is False:
            ok = o.kind == 'return' and isinstance(o.value, ListV) and not o.value.items
            res.ob('R2', site, 'non-label decomposes to nothing', ok, repr(o))
            if not ok:
                res.violation('R2', site + ':non-label', m.where(f), 'a string that is not a label must decompose to nothing ([]); got %r' % (o,),
                              func='extract_label')
            continue
        ok = o.kind == 'return' and isinstance(o.value, ListV) and len(o.value.items) == 2 and all(isinstance(i, Obj) for i in o.value.items)
        why = repr(o)
        if ok:
            row, col = o.value.items
            rl, ri, ra = row.attrs.get('label'), row.attrs.get('index'), row.attrs.get('is_absolute')
            cl, ci, ca = col.attrs.get('label'), col.attrs.get('index'), col.attrs.get('is_absolute')

            def grp(v):
                return v.args[1].value if isinstance(v, Atom) and v.op == 'group' else None

            def idx_of(v, fn, g):
                return isinstance(v, Atom) and v.op == fn and len(v.args) == 1 and grp(v.args[0]) == g
            ok = grp(rl) == 4 and grp(cl) == 2 and _marker_is(ra, 3, o.notes) and _marker_is(ca, 1, o.notes) and \
                idx_of(ri, 'row_label_to_index', 4) and idx_of(ci, 'column_label_to_index', 2)
            why = 'row(label=%r index=%r abs=%r) col(label=%r index=%r abs=%r)' % (rl, ri, ra, cl, ci, ca)
        res.ob('R2', site, 'label decomposes to (row from digits, column from letters, own markers)', ok, why)
        if not ok:
            res.violation('R2', site + ':roles', m.where(f),
                          'a label must decompose to [row record (digits group, its index, marker before the digits), column record (letters '
                          'group, its index, leading marker)]; got %s' % why, func='extract_label')
    res.soft_floor('traces of extract_label', n, 2)


def _r3(model, res, m):
    site = '%s:column converters' % m.name
    consts = guards.module_consts(m, model)
    # the alphabet constant
    pool = dict(m.constants)
    pool.update(m.class_constants())        # a class used as a namespace for the helpers holds its constants as Cls.NAME
    alpha_names = [nm for nm, node in pool.items() if isinstance(node, ast.Constant) and isinstance(node.value, str) and
                   len(node.value) >= 20 and node.value.isalpha()]
    ok = len(alpha_names) == 1 and pool[alpha_names[0]].value == 'ABCDEFGHIJKLMNOPQRSTUVWXYZ'
    res.ob('R3', site, 'column alphabet constant is A..Z in order', ok, alpha_names)
    if not ok:
        res.violation('R3', '%s:alphabet' % m.name, m.relpath, 'the column alphabet constant must be the 26 letters A..Z in order (found %s)'
                      % [(nm, pool[nm].value) for nm in alpha_names])
        return
    aname = alpha_names[0]
    for fname in ('column_label_to_index', 'column_index_to_label'):
        f = m.functions.get(fname)
        if f is None:
            raise AnalysisError('%s not found (anchor vanished)' % fname)
        radix = []
        # the converter together with the module-local helpers it delegates to (a generator of digits, a per-letter value)
        body_nodes, seen_f, todo = [], set(), [f]
        while todo:
            g_ = todo.pop()
            if id(g_) in seen_f:
                continue
            seen_f.add(id(g_))
            for n in walk_no_defs(g_):
                body_nodes.append(n)
                if isinstance(n, ast.Call) and isinstance(n.func, ast.Name) and n.func.id in m.functions \
                        and n.func.id not in ('column_label_to_index', 'column_index_to_label'):
                    todo.append(m.functions[n.func.id])
                if isinstance(n, ast.Call):
                    # a module-local function handed on as a value (reduce(step, letters, 0), map(digit, label)) is part of the conversion
                    for a_ in n.args:
                        if isinstance(a_, ast.Name) and a_.id in m.functions and a_.id not in ('column_label_to_index', 'column_index_to_label') \
                                and isinstance(m.functions[a_.id], ast.FunctionDef):
                            todo.append(m.functions[a_.id])
        # locals bound once to a constant (base = COLUMN_LABEL_BASE_LENGTH) are that constant
        consts_outer = consts
        consts = dict(consts)
        for g_ in [f] + [m.functions[x] for x in m.functions if id(m.functions[x]) in seen_f and m.functions[x] is not f]:
            if isinstance(g_, ast.FunctionDef):
                for nm_ in set(x.id for x in walk_no_defs(g_) if isinstance(x, ast.Name) and isinstance(x.ctx, ast.Store)):
                    asg = sa.assignments_to(g_, nm_)
                    if len(asg) == 1 and asg[0][1] is not None and isinstance(asg[0][0], ast.Assign) and nm_ not in consts:
                        v_ = guards.const_number(asg[0][1], consts_outer)
                        if v_ is not None:
                            consts[nm_] = v_
        for n in body_nodes:
            if isinstance(n, ast.BinOp) and isinstance(n.op, (ast.Mod, ast.FloorDiv, ast.Div)):
                v = guards.const_number(n.right, consts)
                if v is not None:
                    radix.append((src(n), v))
            if isinstance(n, ast.BinOp) and isinstance(n.op, ast.Pow):
                v = guards.const_number(n.left, consts)
                if v is not None:
                    radix.append((src(n), v))
            if isinstance(n, (ast.BinOp, ast.AugAssign)) and isinstance(n.op, ast.Mult):
                # Horner's scheme:  number = number * 26 + digit
                for side in ((n.left, n.right) if isinstance(n, ast.BinOp) else (n.value,)):
                    v = guards.const_number(side, consts)
                    if v is not None and v >= 2:
                        radix.append((src(n), v))
            if isinstance(n, ast.AugAssign) and isinstance(n.op, (ast.Mod, ast.FloorDiv)):
                v = guards.const_number(n.value, consts)
                if v is not None:
                    radix.append((src(n), v))
            if isinstance(n, ast.Call) and sa.call_name(n) == 'divmod' and len(n.args) == 2:
                v = guards.const_number(n.args[1], consts)
                if v is not None:
                    radix.append((src(n), v))
        # positional numeration: within one step the digit (x % 26) and the carry (x // 26) come from the same x
        if fname == 'column_index_to_label':
            blocks = []
            for g_ in [f] + [m.functions[n.func.id] for n in body_nodes if isinstance(n, ast.Call) and isinstance(n.func, ast.Name)
                             and n.func.id in m.functions and n.func.id not in ('column_label_to_index', 'column_index_to_label')]:
                blocks.append(g_.body)
                for n in walk_no_defs(g_):
                    if isinstance(n, (ast.While, ast.For)):
                        blocks.append(n.body)
                    elif isinstance(n, ast.If):
                        blocks.append(n.body)
                        blocks.append(n.orelse)
            bad_steps = []
            for blk in blocks:
                bad_steps += dividend_mismatches(blk, consts, lambda r: r is not None and r == 26)
            res.ob('R3', '%s:%s' % (m.name, fname), 'digit and carry of one step are taken from the same dividend', not bad_steps,
                   '; '.join('%s vs %s' % (_show_lin(a), _show_lin(b)) for _, a, _, b in bad_steps))
            for mn, md, dn, dd in bad_steps[:1]:
                res.violation('R3', '%s:%s:digit-carry-dividends' % (m.name, fname), m.where(dn),
                              'one step of the conversion takes its letter from (%s) %% 26 but carries (%s) // 26 on: digit and carry of a '
                              'positional step must come from the same dividend, otherwise the letters no longer add up to the index (labels '
                              'and indices stop corresponding one-to-one)' % (_show_lin(md), _show_lin(dd)), func=fname)
        # exact integer arithmetic: a quotient taken through a float is wrong from 2**53 on (labels of 12+ letters)
        inexact = [n for n in body_nodes if (isinstance(n, (ast.BinOp, ast.AugAssign)) and isinstance(n.op, ast.Div)) or
                   (isinstance(n, ast.Call) and sa.call_name(n) in ('float', 'math.log', 'math.pow', 'math.fmod', 'math.log10', 'math.log2', 'pow')
                    and sa.call_name(n) != 'pow')]
        res.ob('R3', '%s:%s' % (m.name, fname), 'column arithmetic is exact integer arithmetic', not inexact, '; '.join(src(n) for n in inexact))
        if inexact:
            res.violation('R3', '%s:%s:float-arithmetic' % (m.name, fname), m.where(inexact[0]),
                          '%s computes with floating point (%s): the quotient is inexact for column indices from 2**53 on, so long column labels '
                          'and their indices no longer correspond one-to-one' % (fname, src(inexact[0])), func=fname)
        bad = [r for r in radix if r[1] != 26]
        okr = bool(radix) and not bad
        if not radix:
            # no arithmetic with a constant radix recognised (a table of widths, a library routine): the constant rows of R9 sample it
            res.ob('R3', '%s:%s' % (m.name, fname), 'radix is the alphabet length (26)', True, 'undecided: no radix arithmetic recognised')
            res.notes.append('C19.R3 %s: no radix arithmetic recognised; only the constant rows (R9) speak for this converter' % fname)
            okr = True
        else:
            res.ob('R3', '%s:%s' % (m.name, fname), 'radix is the alphabet length (26)', okr, radix)
        if not okr:
            res.violation('R3', '%s:%s:radix' % (m.name, fname), m.where(f),
                          '%s must use the alphabet length 26 as its only radix; found %s' % (fname, bad or 'no radix arithmetic'), func=fname)
        # letter <-> digit mapping
        if fname == 'column_label_to_index':
            def is_alphabet(e):
                # the constant by its name, as Cls.NAME, or as cls.NAME / self.NAME inside the namespace class
                t = src(e)
                return t == aname or ('.' in aname and t.split('.')[-1] == aname.split('.')[-1] and t.split('.')[0] in ('cls', 'self', aname.split('.')[0]))
            finds = [n for n in body_nodes if isinstance(n, ast.Call) and isinstance(n.func, ast.Attribute) and n.func.attr in ('find', 'index')
                     and isinstance(n.func.value, (ast.Name, ast.Attribute)) and is_alphabet(n.func.value)]
            # the bound method kept in a local:  position_of = ALPHABET.find ; position_of(letter)
            for n in body_nodes:
                if isinstance(n, ast.Call) and isinstance(n.func, ast.Name):
                    asg = sa.assignments_to(f, n.func.id)
                    if len(asg) == 1 and isinstance(asg[0][1], ast.Attribute) and asg[0][1].attr in ('find', 'index') and \
                            isinstance(asg[0][1].value, (ast.Name, ast.Attribute)) and is_alphabet(asg[0][1].value):
                        finds.append(n)
            ords = [n for n in body_nodes if isinstance(n, ast.Call) and sa.call_name(n) == 'ord']
            okm = bool(finds) or bool(ords)
            res.ob('R3', '%s:%s' % (m.name, fname), 'letters are mapped through the alphabet constant', True,
                   None if okm else 'undecided: no look-up in the alphabet constant and no ord() recognised (the constant rows of R9 sample the mapping)')
            # bijective numeration has no zero digit: a letter contributes its position in the alphabet plus one (A = 1 .. Z = 26)
            for fnd in finds:
                # the sum the lookup is a term of (a + find(.) + 1 associates as (a + find(.)) + 1)
                top = fnd
                while isinstance(m.parent(top), ast.BinOp) and isinstance(m.parent(top).op, ast.Add):
                    top = m.parent(top)
                terms, todo_ = [], [top]
                while todo_:
                    x = todo_.pop()
                    if isinstance(x, ast.BinOp) and isinstance(x.op, ast.Add):
                        todo_ += [x.left, x.right]
                    else:
                        terms.append(x)
                plus1 = top is not fnd and sum(1 for x in terms if isinstance(x, ast.Constant) and x.value == 1) == 1 and \
                    not any(isinstance(x, ast.Constant) and x.value != 1 for x in terms)
                res.ob('R3', '%s:%s' % (m.name, fname), 'letter value is %s + 1' % src(fnd), plus1)
                if not plus1:
                    res.violation('R3', '%s:%s:zero-digit' % (m.name, fname), m.where(fnd),
                                  'a letter contributes %s (A = 0) to the column number: column labels are bijective base-26 (A = 1 .. Z = 26, no '
                                  'zero digit), so with a zero digit labels of three or more letters collide with shorter ones whatever offset '
                                  'is added afterwards' % src(fnd), func=fname)
            # upper-cased before the lookup
            ups = [n for n in body_nodes if isinstance(n, ast.Call) and isinstance(n.func, ast.Attribute) and n.func.attr == 'upper']
            oku = bool(ups) or not finds
            res.ob('R3', '%s:%s' % (m.name, fname), 'label is upper-cased before the alphabet lookup', oku)
            if finds and not ups:
                res.violation('R3', '%s:%s:case' % (m.name, fname), m.where(f),
                              'the label is looked up in the upper-case alphabet without being upper-cased: lower-case letters map to -1', func=fname)
            # the loop consumes every letter: its iteration domain mentions the label (or its length) in every zip/range operand
            label_p = sa.params(f)[0]
            for n in walk_no_defs(f):
                if isinstance(n, (ast.For, ast.comprehension)):
                    it = n.iter
                    operands = it.args if isinstance(it, ast.Call) and sa.call_name(it) == 'zip' else [it]
                    for op_ in operands:
                        names = set(x.id for x in ast.walk(op_) if isinstance(x, ast.Name))
                        for _ in range(3):      # locals derived from the label (digits = [... for c in reversed(label)])
                            for nm in sorted(names):
                                for st, val in sa.assignments_to(f, nm):
                                    if val is not None:
                                        names |= set(x.id for x in ast.walk(val) if isinstance(x, ast.Name))
                        okl = label_p in names
                        res.ob('R3', '%s:%s' % (m.name, fname), 'loop operand %s ranges over the whole label' % src(op_), okl)
                        if not okl:
                            res.violation('R3', '%s:%s:bounded-loop' % (m.name, fname), m.where(it),
                                          'the letters are zipped with %s, which does not depend on the label: letters beyond its length are '
                                          'silently dropped (labels of that many letters collide)' % src(op_), func=fname)
        else:
            chrs = [n for n in body_nodes if isinstance(n, ast.Call) and sa.call_name(n) == 'chr']
            for n in chrs:
                offs = [guards.const_number(x, consts) for x in ast.walk(n) if isinstance(x, (ast.Constant, ast.Name, ast.Attribute))]
                offs += [ord(x.args[0].value) for x in ast.walk(n) if isinstance(x, ast.Call) and sa.call_name(x) == 'ord' and len(x.args) == 1
                         and isinstance(x.args[0], ast.Constant) and isinstance(x.args[0].value, str) and len(x.args[0].value) == 1]
                okc = any(o in (65, 97) for o in offs)
                res.ob('R3', '%s:%s' % (m.name, fname), 'digit -> letter offset is ord("A")/ord("a")', okc, src(n))
                if not okc:
                    res.violation('R3', '%s:%s:chr-offset' % (m.name, fname), m.where(n),
                                  'digits are turned into letters with %s; the offset must be 65 or 97' % src(n), func=fname)
            subs = [n for n in body_nodes if isinstance(n, ast.Subscript) and isinstance(n.value, (ast.Name, ast.Attribute)) and
                    (src(n.value) == aname or src(n.value).split('.')[-1] == aname.split('.')[-1])]
            res.ob('R3', '%s:%s' % (m.name, fname), 'letters produced by chr() or the alphabet constant', bool(chrs) or bool(subs))


def _lin(node, env, consts):
    """Integer-linear value of an expression over the names as they are at the start of the block: ({name: coeff}, const) or None.
    int()/math.floor()/math.trunc() of a value are the value (the quantities are integers here)."""
    from fractions import Fraction
    c = guards.const_number(node, consts)
    if c is not None:
        return ({}, c)
    if isinstance(node, ast.Name):
        return env.get(node.id, ({node.id: Fraction(1)}, Fraction(0)))
    if isinstance(node, ast.Call) and sa.call_name(node) in ('int', 'math.floor', 'math.trunc', 'floor') and len(node.args) == 1:
        return _lin(node.args[0], env, consts)
    if isinstance(node, ast.BinOp) and isinstance(node.op, (ast.Add, ast.Sub)):
        a, b = _lin(node.left, env, consts), _lin(node.right, env, consts)
        if a is None or b is None:
            return None
        sg = 1 if isinstance(node.op, ast.Add) else -1
        co = dict(a[0])
        for kk, vv in b[0].items():
            co[kk] = co.get(kk, 0) + sg * vv
        return (dict((kk, vv) for kk, vv in co.items() if vv != 0), a[1] + sg * b[1])
    if isinstance(node, ast.UnaryOp) and isinstance(node.op, ast.USub):
        a = _lin(node.operand, env, consts)
        return None if a is None else (dict((kk, -vv) for kk, vv in a[0].items()), -a[1])
    return None


def _congruent(a, b, radix):
    # the same dividend up to a multiple of the radix:  (x - 26) // 26  is  x // 26 - 1
    return a[0] == b[0] and (a[1] - b[1]) % radix == 0


def dividend_mismatches(stmts, consts, radix_ok, radix=26):
    """Within one straight-line step (the statements of a block, in order), the dividends of ``x % R`` and of ``x // R`` (R a radix):
    returns [(mod node, its dividend, floordiv node, its dividend)] where a step takes the digit and the carry from different
    dividends.  Dividends are compared as linear forms over the values at the start of the block."""
    env = {}
    mods, divs = [], []

    def visit_expr(e):
        for n in ast.walk(e):
            if isinstance(n, ast.BinOp) and isinstance(n.op, (ast.Mod, ast.FloorDiv)) and radix_ok(guards.const_number(n.right, consts)):
                (mods if isinstance(n.op, ast.Mod) else divs).append((n, _lin(n.left, env, consts)))
            if isinstance(n, ast.Call) and sa.call_name(n) == 'divmod' and len(n.args) == 2 and radix_ok(guards.const_number(n.args[1], consts)):
                d = _lin(n.args[0], env, consts)
                mods.append((n, d))
                divs.append((n, d))
    for st in stmts:
        if isinstance(st, (ast.If, ast.For, ast.While, ast.Try, ast.With, ast.FunctionDef, ast.Match)):
            # a nested block is a step of its own; names it may rebind are unknown afterwards
            for nm in guards.assigned_names(st):
                env[nm] = None
            continue
        if isinstance(st, ast.AugAssign) and isinstance(st.target, ast.Name):
            visit_expr(st.value)
            if isinstance(st.op, (ast.Mod, ast.FloorDiv)) and radix_ok(guards.const_number(st.value, consts)):
                (mods if isinstance(st.op, ast.Mod) else divs).append((st, _lin(st.target, env, consts)))
                env[st.target.id] = None
            else:
                shim = ast.BinOp(left=ast.Name(id=st.target.id, ctx=ast.Load()), op=st.op, right=st.value)
                env[st.target.id] = _lin(shim, env, consts)
            continue
        visit_expr(st)
        if isinstance(st, ast.Assign):
            val = _lin(st.value, env, consts)
            for t in st.targets:
                if isinstance(t, ast.Name):
                    env[t.id] = val
                else:
                    for nm in guards.assigned_names(t):
                        env[nm] = None
    env_none = None
    out = []
    known_m = [(n, d) for n, d in mods if d is not None]
    known_d = [(n, d) for n, d in divs if d is not None]
    if known_m and known_d:
        for n, d in known_d:
            if not any(_congruent(d, dm, radix) for _, dm in known_m):
                out.append((known_m[0][0], known_m[0][1], n, d))
    return out


def _show_lin(d):
    co, c = d
    parts = ['%s%s' % ('' if v == 1 else '%s*' % v, k_) for k_, v in sorted(co.items())]
    if c != 0 or not parts:
        parts.append(str(c))
    return ' + '.join(parts).replace('+ -', '- ')


def _r4_exact(model, res, m):
    f1 = m.functions.get('row_label_to_index')
    f2 = m.functions.get('row_index_to_label')
    if f1 is None or f2 is None:
        raise AnalysisError('row converters not found (anchor vanished)')
    # exact integer arithmetic: a row number read or computed through a float is wrong from 2**53 on (the affine forms above are exact
    # rationals and cannot see that)
    for fname_, fn_ in (('row_label_to_index', f1), ('row_index_to_label', f2)):
        nodes, seen_f, todo = [], set(), [fn_]
        while todo:
            g_ = todo.pop()
            if id(g_) in seen_f:
                continue
            seen_f.add(id(g_))
            for n_ in walk_no_defs(g_):
                nodes.append(n_)
                if isinstance(n_, ast.Call) and isinstance(n_.func, ast.Name) and n_.func.id in m.functions and n_.func.id not in ('row_label_to_index', 'row_index_to_label'):
                    todo.append(m.functions[n_.func.id])
        inexact = [n_ for n_ in nodes if (isinstance(n_, (ast.BinOp, ast.AugAssign)) and isinstance(n_.op, ast.Div)) or
                   (isinstance(n_, ast.Call) and sa.call_name(n_) in ('float', 'math.log', 'math.pow', 'math.fmod', 'math.log10', 'math.floor', 'math.ceil', 'round')
                    and sa.call_name(n_) not in ('math.floor', 'math.ceil', 'round'))]
        res.ob('R4', '%s:%s' % (m.name, fname_), 'row arithmetic is exact integer arithmetic', not inexact, '; '.join(src(n_) for n_ in inexact))
        if inexact:
            res.violation('R4', '%s:%s:float-arithmetic' % (m.name, fname_), m.where(inexact[0]),
                          '%s goes through floating point (%s): row numbers from 2**53 on are not exactly representable, so two different row '
                          'labels get the same index and decompose / recompose no longer returns the label' % (fname_, src(inexact[0])), func=fname_)


def _r4(model, res, m):
    site = '%s:row converters' % m.name
    f1 = m.functions.get('row_label_to_index')
    f2 = m.functions.get('row_index_to_label')
    if f1 is None or f2 is None:
        raise AnalysisError('row converters not found (anchor vanished)')
    try:
        o1 = H.run_function(model, Func(m, f1), lambda: [Aff(1, 0, 'int')])
        o2 = H.run_function(model, Func(m, f2), lambda: [Aff(1, 0, 'int')])
    except Unmodelled as e:
        res.ob('R4', site, 'undecided', True, str(e))
        res.notes.append('C19.R4: %s' % e)
        return
    from .c13 import pieces_of, Iv
    P1 = pieces_of(o1, Iv(Fraction(1), True, None, False))
    ok1 = bool(P1) and all(o.kind == 'return' and isinstance(o.value, Aff) and (o.value.coeff, o.value.const) == (1, -1) for iv, o in P1)
    res.ob('R4', site, 'row_label_to_index(n) = n - 1 for n >= 1', ok1, [(repr(iv), repr(o.value)) for iv, o in P1])
    if not ok1:
        res.violation('R4', '%s:row_label_to_index' % m.name, m.where(f1),
                      'row label -> index must be n - 1 for every n >= 1; got %s' % [(repr(iv), repr(o.value)) for iv, o in P1], func='row_label_to_index')
    P2 = pieces_of(o2, Iv(Fraction(0), True, None, False))

    def str_of_plus1(v):
        return isinstance(v, Atom) and v.op == 'str' and len(v.args) == 1 and isinstance(v.args[0], Aff) and \
            (v.args[0].coeff, v.args[0].const) == (1, 1)
    ok2 = bool(P2) and all(o.kind == 'return' and str_of_plus1(o.value) for iv, o in P2)
    res.ob('R4', site, 'row_index_to_label(r) = str(r + 1) for r >= 0', ok2, [(repr(iv), repr(o.value)) for iv, o in P2])
    if not ok2:
        res.violation('R4', '%s:row_index_to_label' % m.name, m.where(f2),
                      'row index -> label must be str(r + 1) for every r >= 0; got %s' % [(repr(iv), repr(o.value)) for iv, o in P2], func='row_index_to_label')
    # text input goes through int()
    o3 = H.run_function(model, Func(m, f1), lambda: [Sym('str', 'T', lang='[0-9]+')])
    ok3 = any(o.kind == 'return' for o in o3)
    res.ob('R4', site, 'row label text is converted with int()', ok3, H.describe(o3)[:3])


def _r5(model, res, m):
    f = m.functions['to_label']
    fv = Func(m, f)
    site = '%s:to_label' % m.name
    opq = H.cell_opaque(model)
    rec_cls = ClassV(None, ast.ClassDef(name='ParsedLabel', bases=[], keywords=[], body=[], decorator_list=[]))

    def pieces(v):
        if isinstance(v, Atom) and v.op == 'concat':
            return pieces(v.args[0]) + pieces(v.args[1])
        if isinstance(v, Atom) and v.op == 'format' and len(v.args) == 2 and isinstance(v.args[0], Const) and isinstance(v.args[0].value, str) \
                and isinstance(v.args[1], ListV) and v.args[0].value.count('%') == v.args[0].value.count('%s') == len(v.args[1].items):
            # '$%s%s' % (column, row): the fixed text between the place holders, and the values in their order
            out_ = []
            for text_, val_ in zip(v.args[0].value.split('%s'), list(v.args[1].items) + [None]):
                if text_:
                    out_.append(text_)
                if val_ is not None:
                    out_ += pieces(val_)
            return out_
        if isinstance(v, Const) and isinstance(v.value, str):
            return [v.value] if v.value != '' else []
        if isinstance(v, Atom) and v.op in ('column_index_to_label', 'row_index_to_label') and len(v.args) == 1 and isinstance(v.args[0], Sym):
            return ['<%s:%s>' % (v.op, v.args[0].name)]
        return ['?%r' % (v,)]
    for rabs in (False, True):
        for cabs in (False, True):
            def mk(rabs=rabs, cabs=cabs):
                row = Obj(rec_cls, {'index': Sym('int', 'RI'), 'label': Sym('str', 'RL'), 'is_absolute': Const(rabs)})
                col = Obj(rec_cls, {'index': Sym('int', 'CI'), 'label': Sym('str', 'CL'), 'is_absolute': Const(cabs)})
                return [row, col]
            try:
                outs = H.run_function(model, fv, mk, opaque=opq)
            except Unmodelled as e:
                res.ob('R5', site, 'undecided', True, str(e))
                continue
            want = (['$'] if cabs else []) + ['<column_index_to_label:CI>'] + (['$'] if rabs else []) + ['<row_index_to_label:RI>']
            ok = len(outs) == 1 and outs[0].kind == 'return' and not outs[0].imprecise and pieces(outs[0].value) == want
            res.ob('R5', site, {'row absolute': rabs, 'column absolute': cabs}, ok, H.describe(outs))
            if not ok:
                res.violation('R5', site + ':order', m.where(f),
                              'to_label must yield [$]column-letters [$]row-digits with each $ governed by its own part; for row absolute=%s, '
                              'column absolute=%s got %s' % (rabs, cabs, '; '.join(H.describe(outs))), case={'row': rabs, 'col': cabs}, func='to_label')


def _r6(model, res, m):
    f = m.functions['column_index_to_label']
    consts = guards.module_consts(m, model)
    whiles = [n for n in walk_no_defs(f) if isinstance(n, ast.While)]
    fors = [n for n in walk_no_defs(f) if isinstance(n, ast.For)]
    site = '%s:column_index_to_label' % m.name
    if not whiles:
        res.ob('R6', site, 'no while loop (bounded iteration)', True, '%d for loops' % len(fors))
        return
    for w in whiles:
        verdict, why = c01.while_verdict(model, m, f, w, consts)
        res.ob('R6', site, 'while %s' % src(w.test), verdict is not False, why)
        if verdict is False:
            res.violation('R6', site + ':loop', m.where(w), 'the column loop "while %s" has no termination argument: %s' % (src(w.test), why),
                          func='column_index_to_label')
