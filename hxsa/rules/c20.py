# -*- coding: utf-8 -*-
"""C20 - event emitter: ordered delivery over a snapshot, appending subscription, once means once,
exact unsubscription, names are keys.  Structural necessary conditions over all histories; the full
trace semantics is a history property and is not decided here."""
import ast
import itertools
from ..model import AnalysisError, src
from ..paths import function_paths, walk_no_defs, calls_in
from .. import sa

API = ('on', 'once', 'emit', 'off')
COPY_CALLS = ('list', 'tuple')          # order-preserving copies
ORDER_BREAKERS = ('reversed', 'sorted', 'set', 'frozenset')


def find_emitter(model):
    cands = []
    for m in model.modules.values():
        for c in m.classes.values():
            names = set(n.name for n in c.body if isinstance(n, ast.FunctionDef))
            # a method may also be bound by assignment in the class body (once = partialmethod(on, once=True))
            names |= set(t.id for n in c.body if isinstance(n, ast.Assign) for t in n.targets if isinstance(t, ast.Name))
            if all(a in names for a in API):
                cands.append((m, c))
    if not cands:
        raise AnalysisError('no class defining on/once/emit/off found (anchor vanished)')
    return cands


class _Methods(dict):
    """Methods of the emitter class written as plain ``def``s; asking for one that is bound some other way (an assignment in the class
    body) is a vanished anchor for the syntactic rule that asks, not a crash."""

    def __missing__(self, name):
        raise AnalysisError('%s is not a plain method of the emitter class (anchor vanished)' % name)


def storage_attr(m, c, methods):
    """The self attribute subscripted by the ``name`` parameter in ``on``."""
    for fn_ in methods.values():
        sa.register_self_attr_aliases(fn_)
    on = methods['on']
    s = sa.self_name(on)
    counts = {}
    for fn in methods.values():
        for n in ast.walk(fn):
            if isinstance(n, ast.Attribute) and isinstance(n.value, ast.Name) and n.value.id == sa.self_name(fn):
                p = m.parent(n)
                if isinstance(p, ast.Subscript) and p.value is n:
                    counts[n.attr] = counts.get(n.attr, 0) + 1
                elif isinstance(p, ast.Attribute) and p.attr in ('get', 'pop', 'setdefault') :
                    counts[n.attr] = counts.get(n.attr, 0) + 1
    if not counts:
        raise AnalysisError('cannot identify the listener storage of %s' % c.name)
    return max(counts, key=lambda k: counts[k])


def is_storage_for_name(node, selfname, store, name_param):
    """``self.<store>[name]`` / ``self.<store>.get(name, ...)`` / ``.setdefault(name, [])``."""
    if isinstance(node, ast.Subscript) and sa.is_self_attr(node.value, selfname, store):
        return _is_name(node.slice, name_param)
    if isinstance(node, ast.Call) and isinstance(node.func, ast.Attribute) and \
            node.func.attr in ('get', 'setdefault') and sa.is_self_attr(node.func.value, selfname, store):
        return bool(node.args) and _is_name(node.args[0], name_param)
    return False


def _is_name(node, name):
    return isinstance(node, ast.Name) and node.id == name


def run(model, res, tier):
    res.explanation = (
        'AST rules over the emitter class found by its public API (on/once/emit/off): delivery loop iterates an '
        'order-preserving copy and calls every listener with the emitted args and its bound context; on() appends '
        'unconditionally at the end; once() wrapper unsubscribes itself before calling, remembers the original under the '
        'attribute off() reads, registers through on() and forwards args/context; off() filter is evaluated as a boolean '
        'function over its three atoms on all 8 valuations against the specification, keeps order, and drops the key on '
        'off(name); every storage access is keyed by the name parameter. Decides these structural necessary conditions, '
        'not the full trace semantics of arbitrary on/once/off/emit histories.')
    res.rule('R1', 'emit delivers over an order-preserving snapshot, to every listener, with (*args, **ctx)')
    res.rule('R2', 'on appends (callback, ctx) at the end of the per-name list on every path')
    res.rule('R3', 'once wrapper: off before callback, remembers original, registered via on, forwards args/ctx')
    res.rule('R4', 'off(name, cb) keeps exactly listeners whose fn is neither cb nor a wrapper of cb, in order; off(name) drops the name')
    res.rule('R5', 'every read/write of listener storage is keyed by the name argument')
    res.rule('R6', 'no subclass in the package overrides on/once/emit/off')
    res.rule('R8', 'whatever an emitter method counts up (or sets) before it calls listeners and counts down (or resets) afterwards is restored '
             'on every exit - a listener that raises must not leave the emitter in the "busy" state')
    res.rule('R7', 'no emitter method resizes a list inside a loop that iterates over that same list (entries would be skipped)')
    res.rule('R9', 'scripted histories: short on/once/off/emit histories with opaque callbacks, run on the abstract emitter (its real constructor '
             'and methods), produce exactly the calls the statement prescribes - including listeners that unsubscribe or subscribe during an emit, '
             'two listeners sharing one callback, and unsubscribing a name nobody listens to')
    res.assumptions += ['callbacks are ordinary callables compared with ==', 'the per-name container is a list']
    res.trusted += ['CPython ast', 'list/slice copy semantics']
    cands = find_emitter(model)
    res.floor('emitter classes', len(cands), 1)
    res.rule('R10', 'listeners carried over to a copy of the parser stay under the names, and with the once / permanent kind, they were '
             'subscribed with, and the copy and the original do not unsubscribe each other (shared with C03.R6)')

    def _copies(tmp):
        from . import c03
        from .. import ctx as _ctxmod
        c03.copies_are_independent(model, tmp, _ctxmod.get(model), 'R10')
    from .. import abshelp as _H
    _H.borrow(res, 'R10', 'copies', _copies)
    for m, c in cands:
        methods = _Methods((n.name, n) for n in c.body if isinstance(n, ast.FunctionDef))
        from .. import abshelp as H
        # the histories need no syntactic anchor: they run whatever the class defines
        H.safely(res, 'R9', 'histories', _r9_histories, model, res, m, c)
        store = H.safely(res, 'R5', 'storage attribute', storage_attr, m, c, methods)
        if store is None:
            continue
        res.analysed['storage attribute'] = '%s.%s' % (c.name, store)
        H.safely(res, 'R1', 'emit', _r1, model, res, m, c, methods, store)
        H.safely(res, 'R2', 'on', _r2, model, res, m, c, methods, store)
        H.safely(res, 'R3', 'once', _r3, model, res, m, c, methods, store)
        H.safely(res, 'R4', 'off', _r4, model, res, m, c, methods, store)
        H.safely(res, 'R5', 'storage', _r5, model, res, m, c, methods, store)
        H.safely(res, 'R7', 'resizing', _r7, model, res, m, c, methods)
        H.safely(res, 'R8', 'paired bookkeeping', _r8, model, res, m, c, methods)
        for sm, sc in model.subclasses_of(m, c):
            for n in sc.body:
                if isinstance(n, ast.FunctionDef) and n.name in API:
                    ok = False
                    res.ob('R6', '%s:%s.%s' % (sm.name, sc.name, n.name), 'override', ok)
                    res.violation('R6', '%s:%s.%s:overrides-emitter-api' % (sm.name, sc.name, n.name), sm.where(n),
                                  'subclass overrides emitter method %s; the emitter rules no longer describe it' % n.name,
                                  func=sc.name + '.' + n.name)
            res.ob('R6', '%s:%s' % (sm.name, sc.name), 'no override of on/once/emit/off', True)


# ---------------------------------------------------------------------------------------------------
# R9: scripted histories on the abstract emitter

# op: ('on'|'once', name, callback, ctx-or-None) | ('off', name, callback-or-None) | ('emit', name, arg)
# callbacks: 'F' 'G' 'H' plain; 'OFFSELF:<name>' unsubscribes the whole name when called; 'SUB:<name>:<cb>' subscribes <cb> when called;
# 'OFFME:<name>' unsubscribes itself (name, callback) when called
HISTORIES = (
    ('two listeners, context bound', [('on', 'n', 'F', {'k': 1}), ('on', 'n', 'G', None), ('emit', 'n', 'a')],
     [('F', 'a', {'k': 1}), ('G', 'a', {})]),
    ('once fires on the first emit only', [('once', 'n', 'F', None), ('emit', 'n', 'a'), ('emit', 'n', 'b')], [('F', 'a', {})]),
    ('a once-listener sharing its callback with a permanent one',
     [('on', 'n', 'F', {'t': 'always'}), ('on', 'n', 'G', None), ('once', 'n', 'F', {'t': 'once'}), ('emit', 'n', 'a'), ('emit', 'n', 'b'), ('emit', 'n', 'c')],
     [('F', 'a', {'t': 'always'}), ('G', 'a', {}), ('F', 'a', {'t': 'once'}), ('F', 'b', {'t': 'always'}), ('G', 'b', {}),
      ('F', 'c', {'t': 'always'}), ('G', 'c', {})]),
    ('off(name, callback) removes exactly that callback', [('on', 'n', 'F', None), ('on', 'n', 'G', None), ('on', 'n', 'F', None), ('off', 'n', 'F'), ('emit', 'n', 'a')],
     [('G', 'a', {})]),
    ('off(name, callback) removes a once-listener too', [('once', 'n', 'F', None), ('on', 'n', 'G', None), ('off', 'n', 'F'), ('emit', 'n', 'a')], [('G', 'a', {})]),
    ('off(name) removes every listener of the name only', [('on', 'n', 'F', None), ('on', 'm', 'G', None), ('off', 'n', None), ('emit', 'n', 'a'), ('emit', 'm', 'b')],
     [('G', 'b', {})]),
    ('off of a name nobody listens to', [('off', 'n', None), ('off', 'n', 'F'), ('on', 'n', 'F', None), ('emit', 'n', 'a')], [('F', 'a', {})]),
    ('events of one name do not reach another', [('on', 'n', 'F', None), ('on', 'm', 'G', None), ('emit', 'n', 'a')], [('F', 'a', {})]),
    ('two listeners unsubscribe the name during one emit',
     [('on', 'n', 'OFFSELF:n', None), ('on', 'n', 'OFFSELF:n', None), ('on', 'n', 'H', None), ('emit', 'n', 'a'), ('emit', 'n', 'b')],
     [('OFFSELF:n', 'a', {}), ('OFFSELF:n', 'a', {}), ('H', 'a', {})]),
    ('a listener that removes itself does not make the next one be skipped',
     [('on', 'n', 'OFFME:n', None), ('on', 'n', 'G', None), ('emit', 'n', 'a'), ('emit', 'n', 'b')],
     [('OFFME:n', 'a', {}), ('G', 'a', {}), ('G', 'b', {})]),
    ('a subscription made during an emit counts from the next emit',
     [('on', 'n', 'SUB:n:G', None), ('emit', 'n', 'a'), ('off', 'n', 'SUB:n:G'), ('emit', 'n', 'b')],
     [('SUB:n:G', 'a', {}), ('G', 'b', {})]),
    ('emits nobody listens to leave nothing behind',
     [('emit', 'n', 'a'), ('emit', 'm', 'b'), ('on', 'n', 'F', None), ('emit', 'm', 'c'), ('emit', 'n', 'd')], [('F', 'd', {})]),
    ('off(name, callback) keeps the others in subscription order, once-listeners among them',
     [('once', 'n', 'F', None), ('on', 'n', 'G', None), ('once', 'n', 'H', None), ('on', 'n', 'T', None), ('on', 'n', 'K', None), ('off', 'n', 'T'),
      ('emit', 'n', 'a'), ('emit', 'n', 'b')],
     [('F', 'a', {}), ('G', 'a', {}), ('H', 'a', {}), ('K', 'a', {}), ('G', 'b', {}), ('K', 'b', {})]),
    ('once-listener removing the name while it runs', [('once', 'n', 'OFFSELF:n', None), ('on', 'n', 'G', None), ('emit', 'n', 'a'), ('emit', 'n', 'b')],
     [('OFFSELF:n', 'a', {}), ('G', 'a', {})]),
)


def _r9_histories(model, res, m, c):
    from ..absint import Interp, Const, Builtin, ClassV, DictV, Unmodelled, Obj
    site = '%s.%s' % (m.name, c.name)
    n = 0
    for label, ops, want in HISTORIES:
        def script(interp, st, ops=ops):
            em = interp.instantiate(ClassV(m, c), [])
            cbs = {}

            def cb(name):
                if name in cbs:
                    return cbs[name]
                key = 'hx:h:%s' % name

                def fn(interp2, args, kwargs, name=name):
                    interp2.state.events.append((name, list(args), dict(kwargs)))
                    parts = name.split(':')
                    if parts[0] == 'OFFSELF':
                        interp2.call(interp2.get_method(em, 'off'), [Const(parts[1])])
                    elif parts[0] == 'OFFME':
                        interp2.call(interp2.get_method(em, 'off'), [Const(parts[1]), cbs[name]])
                    elif parts[0] == 'SUB':
                        interp2.call(interp2.get_method(em, 'on'), [Const(parts[1]), cb(parts[2])])
                    return Const(None)
                interp.extern[key] = fn
                cbs[name] = Builtin(key)
                return cbs[name]
            for op in ops:
                meth = interp.get_method(em, op[0]) or interp.getattr(em, op[0])
                if op[0] in ('on', 'once'):
                    args = [Const(op[1]), cb(op[2])]
                    if op[3] is not None:
                        args.append(DictV([[Const(k_), Const(v_)] for k_, v_ in sorted(op[3].items())]))
                    interp.call(meth, args)
                elif op[0] == 'off':
                    interp.call(meth, [Const(op[1])] + ([cb(op[2])] if op[2] is not None else []))
                else:
                    interp.call(meth, [Const(op[1]), Const(op[2])])
            return Const(None)
        try:
            outs = Interp(model).run(script)
        except Unmodelled as e:
            res.ob('R9', site, label, True, 'undecided: %s' % e)
            continue
        if len(outs) != 1 or outs[0].imprecise:
            res.ob('R9', site, label, True, 'undecided: %d outcomes%s' % (len(outs), ' (imprecise)' if outs and outs[0].imprecise else ''))
            continue
        o = outs[0]
        got = []
        shape_ok = True
        for ev in o.events:
            if not (isinstance(ev, tuple) and len(ev) == 3 and isinstance(ev[0], str)):
                continue
            name, args, kwargs = ev
            if len(args) != 1 or not isinstance(args[0], Const) or not all(isinstance(v, Const) for v in kwargs.values()):
                shape_ok = False
                break
            got.append((name, args[0].value, dict((k_, v.value) for k_, v in kwargs.items())))
        if not shape_ok:
            res.ob('R9', site, label, True, 'undecided: calls with non-constant arguments')
            continue
        n += 1
        ok = o.kind == 'return' and got == list(want)
        res.ob('R9', site, {'history': label, 'calls': ['%s(%s%s)' % (a, b, ', **%r' % c_ if c_ else '') for a, b, c_ in got]}, ok)
        if not ok:
            how = 'ends in %s %r' % (o.kind, o.value) if o.kind != 'return' else 'calls %s' % (
                ', '.join('%s(%r%s)' % (a, b, ', **%r' % c_ if c_ else '') for a, b, c_ in got) or 'nothing')
            res.violation('R9', '%s:history:%s' % (site, _slug(label)), m.where(c),
                          'history "%s" [%s] %s; the statement prescribes %s' % (
                              label, '; '.join('%s(%s)' % (op[0], ', '.join(repr(x) for x in op[1:] if x is not None)) for op in ops), how,
                              ', '.join('%s(%r%s)' % (a, b, ', **%r' % c_ if c_ else '') for a, b, c_ in want) or 'no call'),
                          case=label, func=c.name)
    res.soft_floor('emitter histories decided', n, 9)


def _slug(s_):
    return ''.join(ch if ch.isalnum() else '-' for ch in s_)[:50]


def emitter_rules(model, res):
    """R1-R5 on every emitter class (used by the properties that depend on events being delivered as the emitter promises)."""
    for m, c in find_emitter(model):
        methods = _Methods((n.name, n) for n in c.body if isinstance(n, ast.FunctionDef))
        store = storage_attr(m, c, methods)
        _r1(model, res, m, c, methods, store)
        _r2(model, res, m, c, methods, store)
        _r3(model, res, m, c, methods, store)
        _r4(model, res, m, c, methods, store)
        _r5(model, res, m, c, methods, store)
        _r7(model, res, m, c, methods)
        _r8(model, res, m, c, methods)


# ---------------------------------------------------------------------------------------------------

def _listener_fields(model, m):
    """Field order of the namedtuple used for listeners, e.g. ['fn', 'ctx'] (None if not found)."""
    for name, val in m.constants.items():
        if isinstance(val, ast.Call) and sa.call_name(val) in ('namedtuple', 'collections.namedtuple') \
                and len(val.args) >= 2:
            try:
                fields = ast.literal_eval(val.args[1])
                if isinstance(fields, str):
                    fields = fields.replace(',', ' ').split()
                return name, list(fields)
            except Exception:
                pass
    # a small record class: __init__(self, a, b) storing self.a = a, self.b = b - or annotated fields (NamedTuple / dataclass)
    cands = []
    for cname, cnode in m.classes.items():
        init = [n for n in cnode.body if isinstance(n, ast.FunctionDef) and n.name == '__init__']
        if init:
            ps = sa.params(init[0])[1:]
            stored = set(t.attr for st in ast.walk(init[0]) if isinstance(st, ast.Assign) and isinstance(st.value, ast.Name) and st.value.id in ps
                         for t in st.targets if isinstance(t, ast.Attribute) and isinstance(t.value, ast.Name) and t.attr == st.value.id)
            if ps and set(ps) == stored and not sa.vararg(init[0]):
                cands.append((cname, list(ps)))
        else:
            ann = [n.target.id for n in cnode.body if isinstance(n, ast.AnnAssign) and isinstance(n.target, ast.Name)]
            ann += [n.targets[0].id for n in cnode.body if isinstance(n, ast.Assign) and getattr(n, '_annotation', None) is not None
                    and isinstance(n.targets[0], ast.Name)]
            if ann:
                cands.append((cname, ann))
    for cname, fields in cands:
        if 'fn' in fields and 'ctx' in fields:
            return cname, fields
    return None, None


def _r1(model, res, m, c, methods, store):
    emit = methods['emit']
    s = sa.self_name(emit)
    ps = sa.params(emit)
    if len(ps) < 2 or not sa.vararg(emit):
        raise AnalysisError('emit does not have the (self, name, *args) shape')
    name_p, va = ps[1], sa.vararg(emit)
    site = '%s:%s.emit' % (m.name, c.name)
    loops = [n for n in walk_no_defs(emit) if isinstance(n, ast.For)]
    deliver = []
    for lp in loops:
        tnames = set(n.id for n in ast.walk(lp.target) if isinstance(n, ast.Name))
        for call in calls_in(lp):
            # the callee spelled directly or through a local bound once (fn = listener.fn; fn(*args, **listener.ctx))
            if any(isinstance(n, ast.Name) and n.id in tnames for n in ast.walk(_via_local(emit, call.func, tnames))):
                deliver.append((lp, call, tnames))
    res.floor('delivery loops in emit', len(deliver), 1)
    ltype, fields = _listener_fields(model, m)
    for lp, call, tnames in deliver:
        it = sa.resolve_local(emit, lp.iter)
        # (a) snapshot, order preserving
        verdict, why = _snapshot_verdict(it, s, store, name_p, emit)
        if verdict is None and isinstance(it, ast.Name) and len(sa.assignments_to(emit, it.id)) > 1:
            # a name bound more than once (e.g. copied only under a condition): every definition that reaches the loop must be a snapshot
            verdicts = [_snapshot_verdict(v_, s, store, name_p, None) if v_ is not None else (None, 'binding not followed')
                        for v_ in _reaching_values(emit, lp, it.id)]
            if verdicts and any(v_[0] is False for v_ in verdicts):
                verdict, why = [v_ for v_ in verdicts if v_[0] is False][0]
                why += ' (on the path where %s is not rebound to a copy)' % it.id
            elif verdicts and all(v_[0] is True for v_ in verdicts):
                verdict, why = True, 'every definition of %s that reaches the loop is a copy' % it.id
        res.ob('R1', site, 'iterable %s' % src(lp.iter), verdict is not False, why)
        if verdict is False:
            res.violation('R1', '%s:%s.emit:delivery-iterable' % (m.name, c.name), m.where(lp), why,
                          case=src(it), func=c.name + '.emit')
        # (b) every listener is called: no break/return inside the loop, call unconditional
        early = [n for n in walk_no_defs(lp) if isinstance(n, (ast.Break, ast.Return))]
        # a `continue`, or a delivery call nested under a condition, skips some listener of the snapshot
        skips = [n for n in walk_no_defs(lp) if isinstance(n, ast.Continue)]
        par = m.parent(call)
        while par is not None and par is not lp:
            if isinstance(par, (ast.If, ast.IfExp, ast.While, ast.Try, ast.BoolOp)) and not isinstance(par, ast.Try):
                skips.append(par)
            par = m.parent(par)
        res.ob('R1', site, 'every listener of the snapshot is called unconditionally', not skips,
               '; '.join(src(x)[:60] for x in skips))
        if skips:
            res.violation('R1', '%s:%s.emit:conditional-delivery' % (m.name, c.name), m.where(skips[0]),
                          'the delivery loop skips listeners under a condition (%s): a listener removed (or otherwise excluded) while the emit is '
                          'in progress is not called although removals take effect from the next emit only' % src(skips[0])[:80],
                          func=c.name + '.emit')
        res.ob('R1', site, 'no early exit from the delivery loop', not early)
        if early:
            res.violation('R1', '%s:%s.emit:early-exit' % (m.name, c.name), m.where(early[0]),
                          'delivery loop can stop before every listener was called', func=c.name + '.emit')
        # (c) call forwards *args and **ctx
        star = [a for a in call.args if isinstance(a, ast.Starred) and _is_name(a.value, va)]
        plain = [a for a in call.args if not isinstance(a, ast.Starred)]
        ok_args = len(star) == 1 and not plain and len(call.args) == 1
        res.ob('R1', site, 'listener called with exactly *%s' % va, ok_args, src(call))
        if not ok_args:
            res.violation('R1', '%s:%s.emit:args-forwarding' % (m.name, c.name), m.where(call),
                          'listener is not called with exactly the emitted arguments (*%s)' % va,
                          case=src(call), func=c.name + '.emit')
        kw = [k for k in call.keywords if k.arg is None]
        ok_ctx = len(kw) == 1 and len(call.keywords) == 1 and _derived_field(_via_local(emit, kw[0].value, tnames), tnames, 'ctx', fields, 1, lp.target)
        ok_fn = _derived_field(_via_local(emit, call.func, tnames), tnames, 'fn', fields, 0, lp.target)
        res.ob('R1', site, 'listener function and bound context taken from the same listener record', ok_ctx and ok_fn, src(call))
        if not (ok_ctx and ok_fn):
            res.violation('R1', '%s:%s.emit:ctx-forwarding' % (m.name, c.name), m.where(call),
                          'listener is not called as record.fn(*args, **record.ctx)', case=src(call), func=c.name + '.emit')


def _reaching_values(func, loop, name):
    """The value expressions ``name`` holds when ``loop`` is reached, one per acyclic path (earlier values of the name substituted
    into later ones: x = self._e[n]; x = x.copy()  ->  self._e[n].copy()); None for a binding that is not a plain assignment."""
    import copy as _copy
    from ..paths import function_paths, TooManyPaths
    try:
        paths = function_paths(func)
    except TooManyPaths:
        return [None]
    out, seen = [], set()

    class Sub(ast.NodeTransformer):
        def __init__(self, val):
            self.val = val

        def visit_Name(self, node):
            if node.id == name and isinstance(node.ctx, ast.Load) and self.val is not None:
                return _copy.deepcopy(self.val)
            return node
    for p in paths:
        cur, bound, reached = None, False, False
        for it in p.items:
            if it[0] == 'loop' and it[1] is loop:
                reached = True
                break
            if it[0] == 'stmt':
                st = it[1]
                if isinstance(st, ast.Assign) and len(st.targets) == 1 and isinstance(st.targets[0], ast.Name) and st.targets[0].id == name:
                    cur = Sub(cur).visit(_copy.deepcopy(st.value)) if bound else _copy.deepcopy(st.value)
                    ast.fix_missing_locations(cur)
                    bound = True
                elif name in guards_assigned(st):
                    cur, bound = None, True
        if reached:
            key = src(cur) if cur is not None else None
            if key not in seen:
                seen.add(key)
                out.append(cur)
    return out


def guards_assigned(node):
    from .. import guards
    return guards.assigned_names(node)


def _via_local(func, node, tnames):
    if isinstance(node, ast.Name) and node.id not in tnames:
        return sa.resolve_local(func, node)
    return node


def _derived_field(node, tnames, field, fields, idx, target=None):
    """Is ``node`` the ``field`` of the listener record the loop variable holds?  Accepted spellings: record.<field>,
    record[<position of field>], or - when the loop target unpacks the record - the name bound at that position."""
    if fields and field in fields:
        idx = fields.index(field)
    if isinstance(target, (ast.Tuple, ast.List)):
        if isinstance(node, ast.Name) and all(isinstance(e, ast.Name) for e in target.elts):
            names = [e.id for e in target.elts]
            return node.id in names and names.index(node.id) == idx and names.count(node.id) == 1
        return False
    if isinstance(node, ast.Attribute) and isinstance(node.value, ast.Name) and node.value.id in tnames:
        return node.attr == field
    if isinstance(node, ast.Subscript) and isinstance(node.value, ast.Name) and node.value.id in tnames:
        return isinstance(node.slice, ast.Constant) and node.slice.value == idx
    return False


def _is_none_test(t, name):
    """+1 for ``name is None``, -1 for ``name is not None``, 0 otherwise."""
    if isinstance(t, ast.Compare) and len(t.ops) == 1 and _is_name(t.left, name) and \
            isinstance(t.comparators[0], ast.Constant) and t.comparators[0].value is None:
        if isinstance(t.ops[0], ast.Is):
            return 1
        if isinstance(t.ops[0], ast.IsNot):
            return -1
    return 0


def _is_fresh_mapping(n):
    return (isinstance(n, ast.Dict) and not n.keys) or (isinstance(n, ast.Call) and sa.call_name(n) == 'dict' and not n.args and not n.keywords)


def _ctx_or_default(node, ctx_p, func):
    """``ctx`` itself, or ``ctx`` with only None replaced by a fresh empty mapping (conditional-expression spelling)."""
    node = sa.resolve_local(func, node) if func is not None else node
    if _is_name(node, ctx_p):
        return True
    if isinstance(node, ast.IfExp):
        k = _is_none_test(node.test, ctx_p)
        if k == 1:
            return _is_fresh_mapping(node.body) and _is_name(node.orelse, ctx_p)
        if k == -1:
            return _is_name(node.body, ctx_p) and _is_fresh_mapping(node.orelse)
    return False


def _rl(func, node):
    return sa.resolve_local(func, node) if func is not None else node


def _snapshot_verdict(it, s, store, name_p, func):
    """True = copy, False = refuted, None = unrecognised (undecided)."""
    if isinstance(it, ast.Subscript) and isinstance(it.slice, ast.Slice):
        sl = it.slice
        base = _rl(func, it.value)
        if sl.lower is None and sl.upper is None and (sl.step is None or (isinstance(sl.step, ast.Constant) and sl.step.value in (None, 1))):
            if is_storage_for_name(base, s, store, name_p):
                return True, 'full slice copy of the per-name list'
            return None, 'full slice of %s' % src(base)
        if sl.step is not None:
            return False, 'delivery order is not subscription order: iterates %s' % src(it)
        return False, 'delivery iterates a partial slice %s: some listeners are skipped' % src(it)
    if isinstance(it, ast.Call):
        cn = sa.call_name(it)
        if cn in COPY_CALLS and it.args:
            base = _rl(func, it.args[0])
            if is_storage_for_name(base, s, store, name_p):
                return True, '%s() copy of the per-name list' % cn
            return _snapshot_verdict(base, s, store, name_p, func) if isinstance(base, (ast.Call, ast.Subscript)) else (None, 'copy of %s' % src(base))
        if cn in ('copy.copy',) and it.args and is_storage_for_name(_rl(func, it.args[0]), s, store, name_p):
            return True, 'copy.copy of the per-name list'
        if isinstance(it.func, ast.Attribute) and it.func.attr == 'copy' and \
                is_storage_for_name(_rl(func, it.func.value), s, store, name_p):
            return True, '.copy() of the per-name list'
        if cn in ORDER_BREAKERS:
            return False, 'delivery order is not subscription order: iterates %s' % src(it)
        if is_storage_for_name(it, s, store, name_p):
            return False, 'delivery iterates the live listener list (%s): subscriptions made or removed during an emit take effect in the same emit' % src(it)
    if is_storage_for_name(it, s, store, name_p):
        return False, 'delivery iterates the live listener list (%s): subscriptions made or removed during an emit take effect in the same emit' % src(it)
    return None, 'unrecognised iterable %s' % src(it)


# ---------------------------------------------------------------------------------------------------

def _append_sites(func, s, store, name_p):
    """Writes to the per-name list in ``func``: list of (kind, node, value-node)."""
    out = []
    for n in walk_no_defs(func):
        if isinstance(n, ast.Call) and isinstance(n.func, ast.Attribute):
            recv = sa.resolve_local(func, n.func.value)
            if is_storage_for_name(recv, s, store, name_p):
                out.append((n.func.attr, n, n.args))
        if isinstance(n, ast.Assign):
            for t in n.targets:
                if is_storage_for_name(t, s, store, name_p):
                    out.append(('assign', n, [n.value]))
        if isinstance(n, ast.AugAssign) and is_storage_for_name(n.target, s, store, name_p):
            out.append(('augassign', n, [n.value]))
    return out


def _r2(model, res, m, c, methods, store):
    on = methods['on']
    s = sa.self_name(on)
    ps = sa.params(on)
    if len(ps) < 3:
        raise AnalysisError('on does not have the (self, name, callback, ctx=None) shape')
    name_p, cb_p = ps[1], ps[2]
    ctx_p = ps[3] if len(ps) > 3 else None
    site = '%s:%s.on' % (m.name, c.name)
    ltype, fields = _listener_fields(model, m)
    writes = _append_sites(on, s, store, name_p)
    res.floor('writes to listener storage in on', len(writes), 1)
    key = '%s:%s.on' % (m.name, c.name)
    for kind, node, args in writes:
        ok = True
        why = ''
        if kind == 'append':
            pass
        elif kind == 'augassign' and isinstance(node.op, ast.Add) and isinstance(node.value, (ast.List, ast.Tuple)):
            args = node.value.elts
        elif kind == 'assign' and isinstance(node.value, ast.BinOp) and isinstance(node.value.op, ast.Add) \
                and is_storage_for_name(node.value.left, s, store, name_p) and isinstance(node.value.right, (ast.List, ast.Tuple)):
            args = node.value.right.elts
        elif kind in ('get', 'setdefault', 'copy', 'index', 'count', '__len__'):
            continue
        else:
            ok = False
            why = 'subscription does not append at the end of the per-name list (%s)' % src(node)
        res.ob('R2', site, 'write %s' % src(node), ok, why)
        if not ok:
            res.violation('R2', key + ':not-append', m.where(node), why, func=c.name + '.on')
            continue
        # the stored record carries callback and ctx unchanged
        rec = args[0] if len(args) == 1 else None
        okrec = False
        if rec is not None:
            rec = sa.resolve_local(on, rec)
            fn_v, ctx_v = _record_fields(rec, ltype, fields)
            okrec = _is_name(fn_v, cb_p) and (ctx_p is None or (ctx_v is not None and _ctx_or_default(ctx_v, ctx_p, on)))
        res.ob('R2', site, 'stored record is (callback, ctx)', okrec, src(rec) if rec is not None else None)
        if not okrec:
            res.violation('R2', key + ':record', m.where(node),
                          'stored listener record is not (fn=%s, ctx=%s)' % (cb_p, ctx_p), case=src(node), func=c.name + '.on')
    # unconditional: every path through on() performs an append-like write
    good_nodes = set(id(n) for k, n, a in writes if k in ('append', 'augassign', 'assign'))
    for p in function_paths(on):
        if p.kind() in ('raise',):
            continue
        hit = any(id(x) in good_nodes for st in p.stmts() for x in ast.walk(st))
        res.ob('R2', site, 'path %s subscribes' % p.describe(), hit)
        if not hit:
            res.violation('R2', key + ':conditional-subscribe', m.where(on),
                          'a path through on() returns without adding the listener (duplicates or some listeners are dropped)',
                          case=p.describe(), func=c.name + '.on')
    # ctx default only replaces None
    if ctx_p:
        for node, val in sa.assignments_to(on, ctx_p):
            guard_ok = False
            par = m.parent(node)
            if isinstance(par, ast.If) and node in par.body:
                guard_ok = _is_none_test(par.test, ctx_p) == 1
            elif isinstance(par, ast.If) and node in par.orelse:
                guard_ok = _is_none_test(par.test, ctx_p) == -1
            elif val is not None and _ctx_or_default(val, ctx_p, None):
                guard_ok = True         # ctx = {} if ctx is None else ctx
            res.ob('R2', site, 'context replaced only when None', guard_ok, src(node))
            if not guard_ok:
                res.violation('R2', key + ':ctx-rebound', m.where(node),
                              'the bound context is replaced for a caller-supplied value', case=src(node), func=c.name + '.on')
    for node, val in sa.assignments_to(on, cb_p):
        res.ob('R2', site, 'callback not rebound', False, src(node))
        res.violation('R2', key + ':callback-rebound', m.where(node), 'the callback is replaced before being stored',
                      case=src(node), func=c.name + '.on')


def _record_fields(rec, ltype, fields):
    """(fn node, ctx node) of a listener record expression."""
    if isinstance(rec, ast.Call) and isinstance(rec.func, ast.Name) and (ltype is None or rec.func.id == ltype):
        vals = {}
        for i, a in enumerate(rec.args):
            if fields and i < len(fields):
                vals[fields[i]] = a
        for k in rec.keywords:
            vals[k.arg] = k.value
        return vals.get('fn'), vals.get('ctx')
    if isinstance(rec, (ast.Tuple, ast.List)) and len(rec.elts) == 2:
        return rec.elts[0], rec.elts[1]
    return None, None


# ---------------------------------------------------------------------------------------------------

def _remembered_attr(off, m):
    """Attribute name under which off() looks for a wrapper's original callback."""
    names = set()
    for n in ast.walk(off):
        if isinstance(n, ast.Call) and sa.call_name(n) in ('hasattr', 'getattr') and len(n.args) >= 2 \
                and isinstance(n.args[1], ast.Constant) and isinstance(n.args[1].value, str):
            names.add(n.args[1].value)
    return names


def _r3(model, res, m, c, methods, store):
    once = methods['once']
    off = methods['off']
    s = sa.self_name(once)
    ps = sa.params(once)
    if len(ps) < 3:
        raise AnalysisError('once does not have the (self, name, callback, ctx=None) shape')
    name_p, cb_p = ps[1], ps[2]
    ctx_p = ps[3] if len(ps) > 3 else None
    site = '%s:%s.once' % (m.name, c.name)
    key = site
    wrappers = [n for n in sa.nested_defs(once) if isinstance(n, ast.FunctionDef)]
    if not wrappers:
        # once() is not written as a nested wrapper function (a callable object, a flag on the record ...): this syntactic rule has
        # nothing to read; what once() must do is decided on the histories of R9
        res.analysed['wrapper functions in once'] = 0
        res.ob('R3', site, 'once wrapper', True, 'undecided: once() builds no nested wrapper function (decided by the R9 histories)')
        res.notes.append('C20.R3: once() builds no nested wrapper function; see R9')
        return
    res.floor('wrapper functions in once', len(wrappers), 1)
    w = wrappers[0]
    wname = w.name
    # (i) off(name, wrapper) strictly before callback(...) on every path of the wrapper
    for p in function_paths(w):
        events = []
        for st in p.nodes():
            for call in calls_in(st):
                cn = sa.call_name(call)
                if cn == '%s.off' % s and len(call.args) >= 2 and _is_name(call.args[0], name_p) and _is_name(call.args[1], wname):
                    events.append('off')
                elif cn == cb_p:
                    events.append('call')
        ok = 'call' not in events or ('off' in events and events.index('off') < events.index('call'))
        if p.kind() == 'raise' and 'call' not in events:
            ok = True
        # a path that neither calls nor unsubscribes (silently does nothing) is also a defect
        if 'call' not in events and p.kind() != 'raise':
            ok = False
        if 'call' in events and events.count('call') > 1:
            ok = False
        res.ob('R3', site, 'wrapper path: %s' % (events,), ok, p.describe())
        if not ok:
            res.violation('R3', key + ':wrapper-order', m.where(w),
                          'once-wrapper does not unsubscribe itself before invoking the callback exactly once '
                          '(events on a path: %s): a re-entrant emit delivers it again' % events,
                          case=p.describe(), func=c.name + '.once')
    # (iv) forwards *args and **kwargs
    wva, wkw = sa.vararg(w), sa.kwarg(w)
    for call in [x for x in calls_in(w) if sa.call_name(x) == cb_p]:
        ok = (len(call.args) == 1 and isinstance(call.args[0], ast.Starred) and _is_name(call.args[0].value, wva)
              and len(call.keywords) == 1 and call.keywords[0].arg is None and _is_name(call.keywords[0].value, wkw)
              and not sa.params(w))
        res.ob('R3', site, 'wrapper forwards (*args, **ctx)', ok, src(call))
        if not ok:
            res.violation('R3', key + ':wrapper-forwarding', m.where(call),
                          'once-wrapper does not forward the emitted arguments and context unchanged', case=src(call),
                          func=c.name + '.once')
    # (ii) remembers the original under the attribute that off() reads
    want = _remembered_attr(off, m)
    marks = [n for n in walk_no_defs(once) if isinstance(n, ast.Assign) and len(n.targets) == 1
             and isinstance(n.targets[0], ast.Attribute) and _is_name(n.targets[0].value, wname)]
    okm = any(_is_name(n.value, cb_p) and (not want or n.targets[0].attr in want) for n in marks)
    res.ob('R3', site, 'wrapper.<attr read by off> = callback', okm, '; '.join(src(n) for n in marks) or 'no mark')
    if not okm:
        res.violation('R3', key + ':wrapper-mark', m.where(once),
                      'once-wrapper does not remember the original callback under the attribute off() inspects (%s): '
                      'off(name, callback) cannot remove a once-listener' % (sorted(want) or '?'), func=c.name + '.once')
    # (iii) registered through on(name, wrapper, ctx)
    regs = [x for x in calls_in(once) if sa.call_name(x) == '%s.on' % s]
    okr = False
    for r in regs:
        a = list(r.args) + [k.value for k in r.keywords]
        if len(a) >= 2 and _is_name(a[0], name_p) and _is_name(a[1], wname) and \
                (ctx_p is None or (len(a) >= 3 and _ctx_or_default(a[2], ctx_p, once))):
            okr = True
    if not regs:
        # direct append, same shape as on()
        writes = _append_sites(once, s, store, name_p)
        okr = any(k == 'append' for k, n, a in writes)
    res.ob('R3', site, 'registered via on(name, wrapper, ctx)', okr, '; '.join(src(r) for r in regs))
    if not okr:
        res.violation('R3', key + ':registration', m.where(once),
                      'once() does not register the wrapper for the same name with the caller context via on()',
                      func=c.name + '.once')
    # every path of once registers
    reg_ids = set(id(r) for r in regs)
    for p in function_paths(once):
        if p.kind() == 'raise':
            continue
        hit = any(id(x) in reg_ids for st in p.nodes() for x in ast.walk(st)) or not regs
        res.ob('R3', site, 'path registers: %s' % p.describe(), hit)
        if not hit:
            res.violation('R3', key + ':conditional-registration', m.where(once),
                          'a path through once() returns without registering the listener', case=p.describe(),
                          func=c.name + '.once')


# ---------------------------------------------------------------------------------------------------

def _bool_eval(node, val):
    """Evaluate a boolean expression given val(atom_node) -> True/False/None(unrecognised)."""
    if isinstance(node, ast.BoolOp):
        vals = [_bool_eval(v, val) for v in node.values]
        if isinstance(node.op, ast.And):
            # python short-circuit: stop at first false
            for v in vals:
                if v is None:
                    return None
                if not v:
                    return False
            return True
        for v in vals:
            if v is None:
                return None
            if v:
                return True
        return False
    if isinstance(node, ast.UnaryOp) and isinstance(node.op, ast.Not):
        v = _bool_eval(node.operand, val)
        return None if v is None else (not v)
    return val(node)


def _callback_helpers(m, c, off, cb_p, depth=2):
    """(function, parameter, call) for the functions of the emitter's class or module that off() hands its callback to."""
    out = []
    cls = {n.name: n for n in c.body if isinstance(n, (ast.FunctionDef,))}
    mod = {n.name: n for n in m.tree.body if isinstance(n, ast.FunctionDef)}
    seen = set()

    def visit(func, pname, d):
        for call in walk_no_defs(func):
            if not isinstance(call, ast.Call):
                continue
            idx = [i for i, a in enumerate(call.args) if _is_name(a, pname)]
            kws = [k.arg for k in call.keywords if k.arg and _is_name(k.value, pname)]
            if not idx and not kws:
                continue
            target, bound = None, False
            f = call.func
            if isinstance(f, ast.Attribute) and isinstance(f.value, ast.Name) and f.attr in cls:
                target = cls[f.attr]
                static = any(isinstance(dc, ast.Name) and dc.id == 'staticmethod' for dc in target.decorator_list)
                bound = not static and (f.value.id != c.name)
                if static is False and f.value.id == c.name:
                    bound = False
            elif isinstance(f, ast.Name) and f.id in mod:
                target = mod[f.id]
            if target is None:
                continue
            ps = [a.arg for a in target.args.posonlyargs + target.args.args]
            names = []
            for i in idx:
                j = i + (1 if bound else 0)
                if j < len(ps):
                    names.append(ps[j])
            names += [k for k in kws if k in ps or k in [a.arg for a in target.args.kwonlyargs]]
            for nm in names:
                if (target.name, nm) in seen:
                    continue
                seen.add((target.name, nm))
                out.append((target, nm, call))
                if d > 1:
                    visit(target, nm, d - 1)
    visit(off, cb_p, depth)
    return out


def _r4(model, res, m, c, methods, store):
    off = methods['off']
    s = sa.self_name(off)
    ps = sa.params(off)
    if len(ps) < 3:
        raise AnalysisError('off does not have the (self, name, callback=None) shape')
    name_p, cb_p = ps[1], ps[2]
    site = '%s:%s.off' % (m.name, c.name)
    key = site
    marks = _remembered_attr(off, m)
    # --- find the filter: loop with conditional append, or a comprehension
    filt = None     # (element var, iterable node, condition node, node)
    for n in walk_no_defs(off):
        if isinstance(n, ast.For) and isinstance(n.target, ast.Name):
            for st in n.body:
                if isinstance(st, ast.If) and not st.orelse:
                    apps = [x for x in ast.walk(st) if isinstance(x, ast.Call) and isinstance(x.func, ast.Attribute)
                            and x.func.attr == 'append' and x.args and _is_name(x.args[0], n.target.id)]
                    if apps:
                        filt = (n.target.id, n.iter, st.test, n, 'loop')
        if isinstance(n, ast.ListComp) and len(n.generators) == 1 and isinstance(n.generators[0].target, ast.Name) \
                and _is_name(n.elt, n.generators[0].target.id) and n.generators[0].ifs:
            g = n.generators[0]
            cond = g.ifs[0] if len(g.ifs) == 1 else ast.BoolOp(op=ast.And(), values=list(g.ifs))
            filt = (g.target.id, g.iter, cond, n, 'comp')
    if filt is None:
        res.ob('R4', site, 'filter construct', True, 'unrecognised filter shape: undecided')
        res.notes.append('C20.R4: filter in off() not in a recognised shape; truth-table obligation undecided')
    else:
        ev, it, cond, node, shape = filt
        wrapper_design = 'once' in methods and any(isinstance(x, (ast.FunctionDef, ast.Lambda)) and x is not methods['once'] for x in ast.walk(methods['once']))
        # iteration source is the per-name list in order
        base = sa.resolve_local(off, it)
        ok_src = is_storage_for_name(base, s, store, name_p)
        if isinstance(base, ast.Subscript) and isinstance(base.slice, ast.Slice):
            ok_src = is_storage_for_name(sa.resolve_local(off, base.value), s, store, name_p) and base.slice.step is None \
                and base.slice.lower is None and base.slice.upper is None
        res.ob('R4', site, 'filter iterates the per-name list in order', ok_src, src(it))
        if not ok_src:
            res.violation('R4', key + ':filter-source', m.where(node),
                          'off() does not filter the complete per-name list in subscription order (%s)' % src(base),
                          func=c.name + '.off')
        early = [x for x in walk_no_defs(node) if isinstance(x, (ast.Break, ast.Return))] if shape == 'loop' else []
        res.ob('R4', site, 'filter examines every listener', not early)
        if early:
            res.violation('R4', key + ':filter-early-exit', m.where(early[0]),
                          'the unsubscription scan stops early: later listeners are dropped or later matches are kept',
                          func=c.name + '.off')
        ltype, fields = _listener_fields(model, m)

        def fn_expr(n):
            """is n the expression 'element.fn'?"""
            return (isinstance(n, ast.Attribute) and _is_name(n.value, ev) and n.attr == 'fn') or \
                   (isinstance(n, ast.Subscript) and _is_name(n.value, ev) and isinstance(n.slice, ast.Constant) and n.slice.value == 0)

        def mark_expr(n):
            return isinstance(n, ast.Attribute) and fn_expr(n.value) and (not marks or n.attr in marks)

        unrec = []
        for a1, a2, a3 in itertools.product((False, True), repeat=3):
            # a1: fn == cb ; a2: fn has the mark attribute ; a3: fn.<mark> == cb
            def val(n, a1=a1, a2=a2, a3=a3):
                if isinstance(n, ast.Compare) and len(n.ops) == 1:
                    l, r, op = n.left, n.comparators[0], n.ops[0]
                    if isinstance(op, (ast.Eq, ast.NotEq)):
                        neg = isinstance(op, ast.NotEq)
                        for x, y in ((l, r), (r, l)):
                            if _is_name(y, cb_p):
                                if fn_expr(x):
                                    return a1 != neg
                                if mark_expr(x):
                                    return (a2 and a3) != neg if not a2 else a3 != neg
                                if isinstance(x, ast.Call) and sa.call_name(x) == 'getattr' and len(x.args) == 3 \
                                        and fn_expr(x.args[0]):
                                    return (a2 and a3) != neg
                    if isinstance(op, (ast.Is, ast.IsNot)):
                        for x, y in ((l, r), (r, l)):
                            if _is_name(y, cb_p) and (fn_expr(x) or mark_expr(x)):
                                return 'identity'
                if isinstance(n, ast.Call) and sa.call_name(n) == 'hasattr' and len(n.args) == 2 and fn_expr(n.args[0]):
                    return a2
                unrec.append(src(n))
                return None
            if a2 and not wrapper_design:
                # once() does not wrap the callback in this emitter (a flag on the record, say): no listener carries a mark, these worlds do not exist
                continue
            got = _bool_eval(cond, val)
            want = (not a1) and not (a2 and a3)
            case = {'fn==cb': a1, 'has-mark': a2, 'mark==cb': a3}
            if got == 'identity' or any(False for _ in ()):
                pass
            if got is None:
                res.ob('R4', site, case, True, 'atom not recognised: undecided')
                continue
            ok = (got == want)
            res.ob('R4', site, case, ok, 'keep=%s spec=%s' % (got, want))
            if not ok:
                res.violation('R4', key + ':filter-truth-table', m.where(cond),
                              'off(name, cb) keeps a listener it must remove or removes one it must keep: for %s the filter '
                              'keeps=%s but the specification says keep=%s' % (case, got, want), case=case,
                              func=c.name + '.off')
        # membership in a set hashes the callables: a listener need not be hashable (an instance of a class with __eq__, a dataclass)
        for n in ast.walk(cond):
            if isinstance(n, ast.Compare) and any(isinstance(o, (ast.In, ast.NotIn)) for o in n.ops):
                for cmp_ in n.comparators:
                    if isinstance(cmp_, (ast.Set, ast.SetComp)) or (isinstance(cmp_, ast.Call) and sa.call_name(cmp_) in ('set', 'frozenset')):
                        res.ob('R4', site, 'callbacks are compared with ==, not hashed: %s' % src(n), False)
                        res.violation('R4', key + ':callback-hashed', m.where(n),
                                      'off() tests the callback by membership in a set (%s): that hashes every listener of the name, and a '
                                      'callable that is not hashable (an object with __eq__, a dataclass instance) makes off() - and the once-wrapper '
                                      'that calls it during an emit - raise TypeError instead of unsubscribing' % src(n), func=c.name + '.off')
        # identity comparison of callbacks: bound methods are equal but never identical
        for n in ast.walk(cond):
            if isinstance(n, ast.Compare) and any(isinstance(o, (ast.Is, ast.IsNot)) for o in n.ops) and \
                    any(_is_name(x, cb_p) for x in [n.left] + n.comparators):
                res.ob('R4', site, 'callbacks compared by equality', False, src(n))
                res.violation('R4', key + ':identity-comparison', m.where(n),
                              'callbacks are compared by identity (%s): a bound method passed to off() is a new object each '
                              'time and is never removed' % src(n), func=c.name + '.off')
        if unrec:
            res.notes.append('C20.R4: unrecognised atoms in off() filter: %s' % sorted(set(unrec)))
    # identity comparison in a helper the callback is handed to (the filter condition delegates to it)
    for helper, hp, call in _callback_helpers(m, c, off, cb_p):
        cmps = [n for n in walk_no_defs(helper) if isinstance(n, ast.Compare) and any(_is_name(x, hp) for x in [n.left] + n.comparators)]
        by_eq = [n for n in cmps if any(isinstance(o, (ast.Eq, ast.NotEq)) for o in n.ops)]
        by_id = [n for n in cmps if any(isinstance(o, (ast.Is, ast.IsNot)) for o in n.ops)
                 and not any(isinstance(x, ast.Constant) and x.value is None for x in [n.left] + n.comparators)]
        res.ob('R4', site, 'helper %s compares the callback by equality' % helper.name, not (by_id and not by_eq),
               '; '.join(src(n) for n in by_id + by_eq) or 'no comparison')
        if by_id and not by_eq:
            res.violation('R4', key + ':identity-comparison:' + helper.name, m.where(by_id[0]),
                          'off() hands its callback to %s(), which compares it by identity (%s): a bound method passed to off() is a '
                          'new object each time it is looked up and is never removed' % (helper.name, src(by_id[0])),
                          func=c.name + '.' + helper.name)
    # --- off(name) drops the name: on every path feasible with callback falsy, the key is deleted/emptied
    paths_nocb = sa.feasible_paths(off, {cb_p: False, cb_p + ' is None': True})
    res.floor('paths of off() with no callback', len(paths_nocb), 1)
    for p in paths_nocb:
        if p.kind() == 'raise':
            continue
        dropped = False
        kept = False
        for st in p.stmts():
            if isinstance(st, ast.Delete) and any(is_storage_for_name(t, s, store, name_p) for t in st.targets):
                dropped = True
            for n in ast.walk(st):
                if isinstance(n, ast.Call) and isinstance(n.func, ast.Attribute) and n.func.attr in ('pop',) and \
                        sa.is_self_attr(n.func.value, s, store) and n.args and _is_name(n.args[0], name_p):
                    dropped = True
                if isinstance(n, ast.Call) and isinstance(n.func, ast.Attribute) and n.func.attr == 'clear' and \
                        is_storage_for_name(sa.resolve_local(off, n.func.value), s, store, name_p):
                    dropped = True
            if isinstance(st, ast.Assign) and any(is_storage_for_name(t, s, store, name_p) for t in st.targets):
                v = st.value
                if isinstance(v, (ast.List, ast.Tuple)) and not v.elts:
                    dropped = True
                else:
                    kept = True
        ok = dropped and not kept
        res.ob('R4', site, 'off(name) path drops the name: %s' % p.describe(), ok)
        if not ok:
            res.violation('R4', key + ':off-name-keeps-listeners', m.where(off),
                          'off(name) without a callback does not remove all listeners of the name on path %s' % p.describe(),
                          case=p.describe(), func=c.name + '.off')
    # --- with a callback and survivors, the survivors are stored back (or the list is edited in place)
    paths_cb = sa.feasible_paths(off, {cb_p: True, cb_p + ' is None': False})
    for p in paths_cb:
        if p.kind() == 'raise':
            continue
        # a path on which the kept-list is known non-empty must not delete the key
        conds = dict((src(t), v) for t, v in p.conds())
        dels = [st for st in p.stmts() if isinstance(st, ast.Delete) and
                any(is_storage_for_name(t, s, store, name_p) for t in st.targets)]
        stores = [st for st in p.stmts() if isinstance(st, ast.Assign) and
                  any(is_storage_for_name(t, s, store, name_p) for t in st.targets)]
        # whatever off(name, cb) removes, it removes after looking at every listener of the name: a path that changes the storage
        # (rebinds, deletes, pops ...) without running the filter removes by some other criterion (the newest entry, the first match)
        if filt is not None:
            edits = list(dels) + list(stores)
            for st in p.stmts():
                for n in ast.walk(st):
                    if isinstance(n, ast.Call) and isinstance(n.func, ast.Attribute) and n.func.attr in ('pop', 'remove', 'clear', 'insert') and \
                            (is_storage_for_name(sa.resolve_local(off, n.func.value), s, store, name_p) or
                             (sa.is_self_attr(n.func.value, s, store) and n.args and _is_name(n.args[0], name_p))):
                        edits.append(st)
                if isinstance(st, ast.Delete) and any(isinstance(t, ast.Subscript) and
                                                      is_storage_for_name(sa.resolve_local(off, t.value), s, store, name_p) for t in st.targets):
                    edits.append(st)
            ran_filter = any((it[0] == 'loop' and it[1] is filt[3] and it[2] >= 1) for it in p.items) or \
                any(any(x is filt[3] for x in ast.walk(st)) for st in p.stmts()) or \
                any(it[0] == 'loop' and it[1] is filt[3] for it in p.items)
            # only where the path itself has established that there are listeners (an empty list needs no looking through)
            from ..paths import atoms as _atoms
            nonempty = False
            for t_, v_ in p.conds():
                for a_, tv_ in _atoms(t_, v_):
                    if tv_ and isinstance(a_, (ast.Name, ast.Subscript, ast.Attribute)) and \
                            is_storage_for_name(sa.resolve_local(off, a_) if isinstance(a_, ast.Name) else a_, s, store, name_p):
                        nonempty = True
            if edits and nonempty:
                res.ob('R4', site, 'a path that changes the storage has run the filter: %s' % p.describe()[:80], ran_filter)
                if not ran_filter:
                    res.violation('R4', key + ':edit-without-filter', m.where(edits[0]),
                                  'off(name, callback) changes the listeners of the name (%s) on a path that never looks through them (%s): it '
                                  'removes by another criterion than "this callback, or a once-wrapper of it" - other subscriptions of the same '
                                  'callback stay behind' % (src(edits[0])[:50], p.describe()[:120]), case=p.describe()[:200], func=c.name + '.off')
        if filt is not None and filt[4] == 'loop':
            # the name of the survivors list
            surv = None
            for x in ast.walk(filt[3]):
                if isinstance(x, ast.Call) and isinstance(x.func, ast.Attribute) and x.func.attr == 'append' \
                        and isinstance(x.func.value, ast.Name):
                    surv = x.func.value.id
            if surv and conds.get(surv) is True:
                ok = bool(stores) and not dels and all(_is_name(st.value, surv) for st in stores)
                res.ob('R4', site, 'survivors stored back: %s' % p.describe(), ok)
                if not ok:
                    res.violation('R4', key + ':survivors-not-stored', m.where(off),
                                  'with surviving listeners the per-name list is not replaced by exactly the survivors',
                                  case=p.describe(), func=c.name + '.off')


def _r5(model, res, m, c, methods, store):
    for mname in API:
        fn = methods[mname]
        s = sa.self_name(fn)
        ps = sa.params(fn)
        if len(ps) < 2:
            raise AnalysisError('%s lacks a name parameter' % mname)
        name_p = ps[1]
        site = '%s:%s.%s' % (m.name, c.name, mname)
        for fnode in [fn] + [d for d in sa.nested_defs(fn)]:
            for n in ast.walk(fnode):
                if sa.is_self_attr(n, s, store):
                    if sa.is_alias_definition(n):
                        continue        # registry = self._e : every use of the local is looked at as a use of the storage
                    p = m.parent(n)
                    ok = None
                    if isinstance(p, ast.Subscript) and p.value is n:
                        ok = _is_name(p.slice, name_p)
                        what = src(p)
                    elif isinstance(p, ast.Attribute) and isinstance(m.parent(p), ast.Call) and m.parent(p).func is p:
                        call = m.parent(p)
                        what = src(call)
                        if p.attr in ('get', 'pop', 'setdefault', '__getitem__', '__delitem__', '__contains__'):
                            ok = bool(call.args) and _is_name(call.args[0], name_p)
                        else:
                            ok = False      # values()/items()/clear()/update(): touches other names
                    elif isinstance(p, ast.Compare):
                        ok = True           # ``name in self._e``
                        what = src(p)
                    else:
                        ok = False
                        what = src(p) if p is not None else src(n)
                    if sa.assignments_to(fn, name_p):
                        ok = False
                        what += ' (name parameter is rebound)'
                    res.ob('R5', site, what, ok)
                    if not ok:
                        res.violation('R5', '%s:storage-not-keyed-by-name' % site, m.where(n),
                                      'listener storage is accessed other than through the event name (%s): events of one '
                                      'name can reach or disturb listeners of another' % what, func=c.name + '.' + mname)
    # storage is created per instance in __init__
    init = methods.get('__init__')
    ok = False
    if init is not None:
        s = sa.self_name(init)
        for n in walk_no_defs(init):
            if isinstance(n, ast.Assign) and any(sa.is_self_attr(t, s, store) for t in n.targets):
                v = n.value
                ok = isinstance(v, (ast.Dict, ast.Call))
    res.ob('R5', '%s:%s.__init__' % (m.name, c.name), 'storage created per instance', ok)
    if not ok:
        res.violation('R5', '%s:%s.__init__:storage-not-per-instance' % (m.name, c.name), m.where(c),
                      'listener storage %s is not created in __init__' % store, func=c.name + '.__init__')


# ---------------------------------------------------------------------------------------------------
# R7: resizing a list while iterating over it

RESIZERS = ('remove', 'pop', 'insert', 'append', 'extend', 'clear', 'sort', 'reverse')


def resize_during_iteration(func):
    """[(loop, mutating statement, text of the list)] : a for loop over X (or enumerate(X) / iter(X) / zip(.., X, ..)) whose body
    deletes from / inserts into X itself (same expression, or a local bound once to it) and then goes on iterating."""
    out = []

    def base_of(e):
        if isinstance(e, ast.Call) and sa.call_name(e) in ('enumerate', 'iter', 'zip') and e.args:
            res_ = []
            for a in (e.args if sa.call_name(e) == 'zip' else e.args[:1]):
                res_ += base_of(a)
            return res_
        if isinstance(e, (ast.Name, ast.Attribute, ast.Subscript)):
            return [e]
        return []

    def same(a, b):
        ra = sa.resolve_local(func, a) if isinstance(a, ast.Name) else a
        rb = sa.resolve_local(func, b) if isinstance(b, ast.Name) else b
        return src(a) == src(b) or src(ra) == src(rb)

    def leaves_loop_after(block, idx):
        return idx + 1 < len(block) and isinstance(block[idx + 1], (ast.Break, ast.Return, ast.Raise))

    def scan(block, loop, bases):
        for i, st in enumerate(block):
            hit = None
            if isinstance(st, ast.Delete):
                for t in st.targets:
                    if isinstance(t, ast.Subscript) and any(same(t.value, b) for b in bases):
                        hit = t.value
            elif isinstance(st, ast.Expr) and isinstance(st.value, ast.Call) and isinstance(st.value.func, ast.Attribute) \
                    and st.value.func.attr in RESIZERS and any(same(st.value.func.value, b) for b in bases):
                hit = st.value.func.value
            elif isinstance(st, (ast.Assign, ast.AugAssign)):
                tg = st.targets if isinstance(st, ast.Assign) else [st.target]
                for t in tg:
                    if isinstance(t, ast.Subscript) and isinstance(t.slice, ast.Slice) and any(same(t.value, b) for b in bases):
                        hit = t.value
                    if isinstance(st, ast.AugAssign) and isinstance(t, (ast.Name, ast.Attribute)) and any(same(t, b) for b in bases):
                        hit = t
            if hit is not None and not leaves_loop_after(block, i):
                out.append((loop, st, src(hit)))
            for fld in ('body', 'orelse', 'finalbody'):
                sub = getattr(st, fld, None)
                if isinstance(sub, list) and not isinstance(st, (ast.FunctionDef, ast.ClassDef)):
                    scan(sub, loop, bases)
            for h in getattr(st, 'handlers', []) or []:
                scan(h.body, loop, bases)
    for n in walk_no_defs(func):
        if isinstance(n, ast.For):
            bases = base_of(n.iter)
            if bases:
                scan(n.body, n, bases)
    return out


_R7_WITNESS = """
def bad(self, name, cb):
    events = self._e[name]
    for index, event in enumerate(events):
        if event.fn == cb:
            del events[index]

def good(self, name, cb):
    events = self._e[name]
    for index, event in enumerate(events):
        if event.fn == cb:
            del events[index]
            break
"""


def _r7(model, res, m, c, methods):
    wit = ast.parse(_R7_WITNESS)
    if not resize_during_iteration(wit.body[0]) or resize_during_iteration(wit.body[1]):
        raise AnalysisError('C20.R7 self-check failed')
    for name, f in sorted(methods.items()):
        hits = resize_during_iteration(f)
        res.ob('R7', '%s:%s.%s' % (m.name, c.name, name), 'no list is resized while iterated', not hits,
               '; '.join('%s in loop over %s' % (src(st)[:40], what) for lp, st, what in hits))
        for lp, st, what in hits:
            res.violation('R7', '%s:%s.%s:resize-during-iteration' % (m.name, c.name, name), m.where(st),
                          '%s changes the length of %s inside the loop that iterates over it: the iteration then skips the entry that slides '
                          'into the freed position (two adjacent listeners of one callback - on() then once() - are not both removed) or visits '
                          'entries twice' % (src(st)[:60], what), func='%s.%s' % (c.name, name))


# ---------------------------------------------------------------------------------------------------
# R8: paired bookkeeping around calls (acquire / release discipline on every exit)

def unbalanced_pairs(func):
    """[(first stmt, second stmt, text of the attribute)] : in one block,  self.x += c ... self.x -= c   or   self.x = A ... self.x = B
    with statements that make calls in between, where the second is not the ``finally`` of a try that covers those calls:
    an exception in between skips the restoring statement."""
    s_ = sa.self_name(func)
    out = []

    def attr_of(t):
        return t.attr if isinstance(t, ast.Attribute) and isinstance(t.value, ast.Name) and t.value.id == s_ else None

    def effect(st):
        """('inc'|'dec'|'set', attr) of a simple statement on a self attribute, else None."""
        if isinstance(st, ast.AugAssign) and attr_of(st.target) and isinstance(st.op, (ast.Add, ast.Sub)):
            return ('inc' if isinstance(st.op, ast.Add) else 'dec', attr_of(st.target))
        if isinstance(st, ast.Assign) and len(st.targets) == 1 and attr_of(st.targets[0]):
            v = st.value
            a = attr_of(st.targets[0])
            if isinstance(v, ast.BinOp) and isinstance(v.op, (ast.Add, ast.Sub)) and attr_of(v.left) == a:
                return ('inc' if isinstance(v.op, ast.Add) else 'dec', a)
            if isinstance(v, ast.Constant):
                return ('set', a)
        return None

    def scan(block):
        for i, st in enumerate(block):
            e1 = effect(st)
            if e1 is not None:
                for j in range(i + 1, len(block)):
                    e2 = effect(block[j])
                    if e2 is not None and e2[1] == e1[1] and ((e1[0], e2[0]) in (('inc', 'dec'), ('dec', 'inc'), ('set', 'set'))):
                        between = block[i + 1:j]
                        calls = [x for b in between for x in ast.walk(b) if isinstance(x, ast.Call)]
                        if calls:
                            out.append((st, block[j], 'self.' + e1[1]))
                        break
                    if isinstance(block[j], ast.Try) and block[j].finalbody and any(
                            effect(f_) is not None and effect(f_)[1] == e1[1] for f_ in block[j].finalbody):
                        break       # restored in a finally: balanced on every exit
            for fld in ('body', 'orelse', 'finalbody'):
                sub = getattr(st, fld, None)
                if isinstance(sub, list) and not isinstance(st, (ast.FunctionDef, ast.ClassDef)):
                    scan(sub)
            for h in getattr(st, 'handlers', []) or []:
                scan(h.body)
    scan(func.body)
    return out


_R8_WITNESS = """
def bad(self, name, *args):
    self._depth += 1
    for listener in self._e[name][:]:
        listener.fn(*args)
    self._depth -= 1

def good(self, name, *args):
    self._depth += 1
    try:
        for listener in self._e[name][:]:
            listener.fn(*args)
    finally:
        self._depth -= 1
"""


def _r8(model, res, m, c, methods):
    wit = ast.parse(_R8_WITNESS)
    if not unbalanced_pairs(wit.body[0]) or unbalanced_pairs(wit.body[1]):
        raise AnalysisError('C20.R8 self-check failed')
    for name, f in sorted(methods.items()):
        hits = unbalanced_pairs(f)
        res.ob('R8', '%s:%s.%s' % (m.name, c.name, name), 'paired bookkeeping is restored on every exit', not hits,
               '; '.join('%s ... %s' % (src(a)[:30], src(b)[:30]) for a, b, w in hits))
        for a, b, w in hits:
            res.violation('R8', '%s:%s.%s:unbalanced-bookkeeping:%s' % (m.name, c.name, name, w), m.where(b),
                          '%s is changed by "%s" before listeners run and restored by "%s" afterwards, but not in a finally: a listener '
                          'that raises leaves %s changed for good, and later emits behave as if an emit were still in progress'
                          % (w, src(a)[:40], src(b)[:40], w), func='%s.%s' % (c.name, name))
