# -*- coding: utf-8 -*-
"""E7 - regular expressions as data.

``re._parser.parse`` gives the regex AST; from it we build a Thompson NFA whose character transitions carry a
predicate (set of literals / ranges / categories, possibly negated, case-folded under (?i)).  On top of that:

  * language queries over a finite alphabet of *representative* characters (every literal and range boundary that occurs
    in any automaton involved, their neighbours, and representatives of the character categories): membership,
    inclusion / equality with a counter-example string;
  * Python's ``$`` (end, or before a final newline) and ``\\Z``; a trailing positive look-ahead of one character class
    (``(?=[(])``) is modelled as consuming that character, so token languages include the look-ahead character;
  * exponential-ambiguity (EDA) detection: a state with two distinct transition sequences that read the same string and
    return to that state - the shape that makes a backtracking matcher take exponential time on a failing input.

Nothing here runs the repository's code; compiling/matching with ``re`` is not used for the verdicts of this module.
"""
import unicodedata

try:
    import re._parser as sre_parse
    import re._constants as sre_c
except ImportError:        # Python < 3.11
    import sre_parse
    import sre_constants as sre_c

from .model import AnalysisError

MAXREPEAT = sre_c.MAXREPEAT

CATEGORY_REPS = [' ', '\t', '\n', '\r', '\x0b', '\x0c', '\x1c', '\x85', '\xa0', ' ', '　',
                 '0', '5', '9', '١', '१', '１', '²', '⅕',
                 '\u017f', '\u212a', '\u0131', '\u0130', '\ufb01',        # letters that only case-fold into ASCII (long s, Kelvin, dotless i ...)
                 'a', 'm', 'z', 'A', 'M', 'Z', '_', '\xe9', '\xdf', 'İ', 'K', '日',
                 '\x00', '\x1f', '\x7f', '"', "'", '\\', '(', ')', '$', '.', ',', ';', '#', '!', '?', '/', '-', '+', '%',
                 '^', '&', '*', ':', '<', '>', '=', '{', '}', '[', ']', '@', '~', '|', '`', '\U0001f600']


class Pred(object):
    """Character predicate."""

    def __init__(self, items, negate=False, ignorecase=False, any_=False, dotall=False, ascii_=False):
        self.ascii = ascii_
        self.items = items          # list of ('lit', c) | ('range', lo, hi) | ('cat', name)
        self.negate = negate
        self.ignorecase = ignorecase
        self.any_ = any_
        self.dotall = dotall

    def test(self, ch):
        if self.any_:
            return self.dotall or ch != '\n'
        cands = [ch]
        if self.ignorecase and not (self.ascii and ord(ch[0]) > 127):
            cands = set([ch, ch.lower(), ch.upper(), ch.swapcase()])
            if ch == '\u0130':
                cands.add('i')      # sre lowers U+0130 to a plain i
            if self.ascii:
                cands = set(c for c in cands if len(c) == 1 and ord(c) < 128)       # re.ASCII: only ASCII letters fold
        hit = False
        for c in cands:
            o = ord(c) if len(c) == 1 else -1
            for it in self.items:
                if it[0] == 'lit':
                    if o == it[1]:
                        hit = True
                elif it[0] == 'range':
                    if it[1] <= o <= it[2]:
                        hit = True
                elif it[0] == 'cat':
                    if _category(it[1], c, self.ascii):
                        hit = True
            if hit:
                break
        return hit != self.negate

    def points(self):
        out = set()
        for it in self.items:
            if it[0] == 'lit':
                out.update([it[1] - 1, it[1], it[1] + 1])
            elif it[0] == 'range':
                out.update([it[1] - 1, it[1], it[2], it[2] + 1, (it[1] + it[2]) // 2])
        return out

    def __repr__(self):
        if self.any_:
            return '.'
        return '%s[%s]' % ('^' if self.negate else '', ','.join(
            (chr(i[1]) if i[0] == 'lit' else ('%s-%s' % (chr(i[1]), chr(i[2])) if i[0] == 'range' else i[1])) for i in self.items))


class ButNot(object):
    """Character predicate ``a and not b`` (a consuming item preceded by a one-character negative look-ahead)."""

    def __init__(self, a, b):
        self.a, self.b = a, b

    def test(self, ch):
        return self.a.test(ch) and not self.b.test(ch)

    def points(self):
        return self.a.points() | self.b.points()

    def __repr__(self):
        return '%r&~%r' % (self.a, self.b)


def _category(name, c, ascii_=False):
    if len(c) != 1:
        return False
    n = str(name)
    neg = 'NOT_' in n
    if ascii_ and ord(c) > 127:
        return neg          # re.ASCII: \d \s \w are the ASCII classes
    if 'DIGIT' in n:
        r = unicodedata.category(c) == 'Nd'
    elif 'SPACE' in n:
        r = c.isspace()
    elif 'WORD' in n:
        r = c.isalnum() or c == '_'
    elif 'LINEBREAK' in n:
        r = c == '\n'
    else:
        raise AnalysisError('regex category %s not modelled' % n)
    return r != neg


class NFA(object):
    def __init__(self):
        self.n = 0
        self.eps = {}       # state -> list of (target, edge id)
        self.chr = {}       # state -> list of (Pred, target, edge id)
        self.start = None
        self.final = None
        self._eid = 0
        self.preds = []

    def new(self):
        s = self.n
        self.n += 1
        self.eps[s] = []
        self.chr[s] = []
        return s

    def add_eps(self, a, b):
        self._eid += 1
        self.eps[a].append((b, self._eid))

    def add_chr(self, a, pred, b):
        self._eid += 1
        self.chr[a].append((pred, b, self._eid))
        self.preds.append(pred)

    def closure(self, states):
        seen = set(states)
        stack = list(states)
        while stack:
            s = stack.pop()
            for t, _ in self.eps[s]:
                if t not in seen:
                    seen.add(t)
                    stack.append(t)
        return frozenset(seen)

    def step(self, states, ch):
        out = set()
        for s in states:
            for pred, t, _ in self.chr[s]:
                if pred.test(ch):
                    out.add(t)
        return self.closure(out)

    def accepts(self, text):
        cur = self.closure([self.start])
        for ch in text:
            cur = self.step(cur, ch)
            if not cur:
                return False
        return self.final in cur


class Unsupported(Exception):
    pass


def build(pattern, flags=0, lookahead_consumes=True):
    """NFA for the *whole-string* language of ``pattern`` (as used with match() on an anchored pattern, or as a token
    language).  ``$`` at the end becomes an optional final newline; a trailing look-ahead of one class is consumed."""
    flags |= getattr(pattern, 'flags', 0)        # ply compiles its token rules with re.VERBOSE (grammar.TokenRegex)
    try:
        tree = sre_parse.parse(pattern, flags)
    except Exception as e:
        raise AnalysisError('regex %r does not parse: %s' % (pattern, e))
    nfa = NFA()
    st = {'ic': bool(tree.state.flags & sre_c.SRE_FLAG_IGNORECASE), 'dotall': bool(tree.state.flags & sre_c.SRE_FLAG_DOTALL),
          'ascii': bool(tree.state.flags & sre_c.SRE_FLAG_ASCII), 'lookahead_consumes': lookahead_consumes, 'groups': {}}
    s = nfa.new()
    choices = _backref_choices(tree)
    if choices:
        # a back-reference is not regular in general - but to a group that can only hold one of a few literal characters it is a finite
        # case distinction: one copy of the automaton per assignment of the referenced groups
        import itertools as _it
        f = nfa.new()
        groups_ = sorted(choices)
        for combo in _it.product(*[choices[g] for g in groups_]):
            st['bind'] = dict(zip(groups_, combo))
            a = nfa.new()
            nfa.add_eps(s, a)
            e = _seq(nfa, tree, a, st, top=True)
            nfa.add_eps(e, f)
        st['bind'] = {}
    else:
        f = _seq(nfa, tree, s, st, top=True)
    nfa.start, nfa.final = s, f
    nfa.info = st
    return nfa


def _backref_choices(tree):
    """{group number: [character codes]} for the groups that are referred back to and whose pattern is one literal / a set of literals."""
    refs, defs = set(), {}

    def walk(x):
        if isinstance(x, sre_parse.SubPattern):
            for it in x.data:
                walk(it)
        elif isinstance(x, tuple) and len(x) == 2:
            op, av = x
            if op is sre_c.GROUPREF:
                refs.add(av)
            elif op is sre_c.SUBPATTERN:
                if av[0] is not None:
                    defs[av[0]] = av[3]
                walk(av[3])
            elif op is sre_c.BRANCH:
                for alt in av[1]:
                    walk(alt)
            elif op in (sre_c.MAX_REPEAT, sre_c.MIN_REPEAT):
                walk(av[2])
            elif op in (sre_c.ASSERT, sre_c.ASSERT_NOT):
                walk(av[1])
            elif hasattr(sre_c, 'ATOMIC_GROUP') and op is sre_c.ATOMIC_GROUP:
                walk(av)
    walk(tree)
    out = {}
    for g in refs:
        body = defs.get(g)
        if body is None or len(body) != 1:
            return {}
        op, av = body[0]
        if op is sre_c.LITERAL:
            out[g] = [av]
        elif op is sre_c.IN and all(o is sre_c.LITERAL for o, _ in av) and len(av) <= 4:
            out[g] = [a for _, a in av]
        else:
            return {}
    return out


def _single_pred(op, av, st):
    """Predicate of an item that consumes exactly one character (None for anything else)."""
    if op is sre_c.LITERAL:
        return Pred([('lit', av)], False, st['ic'], ascii_=st.get('ascii', False))
    if op is sre_c.NOT_LITERAL:
        return Pred([('lit', av)], True, st['ic'], ascii_=st.get('ascii', False))
    if op is sre_c.ANY:
        return Pred([], any_=True, dotall=st['dotall'])
    if op is sre_c.IN:
        return _pred_of_in(av, st)
    if op is sre_c.GROUPREF and av in st.get('bind', {}):
        return Pred([('lit', st['bind'][av])], False, st['ic'], ascii_=st.get('ascii', False))
    if op is sre_c.SUBPATTERN and av[0] is None and len(av[3]) == 1:
        return _single_pred(av[3][0][0], av[3][0][1], st)
    return None


def _seq(nfa, sub, s, st, top=False):
    items = list(sub)
    cur = s
    i = 0
    while i < len(items):
        op, av = items[i]
        last = top and i == len(items) - 1
        if op is sre_c.ASSERT_NOT and av[0] == 1 and len(av[1]) == 1 and i + 1 < len(items):
            # (?!x)y with one-character x and y: the next character is a y that is not an x
            neg = _single_pred(av[1][0][0], av[1][0][1], st)
            pos = _single_pred(items[i + 1][0], items[i + 1][1], st)
            if neg is not None and pos is not None:
                t = nfa.new()
                nfa.add_chr(cur, ButNot(pos, neg), t)
                cur = t
                i += 2
                continue
        cur = _node(nfa, op, av, cur, st, last, first=(top and i == 0))
        i += 1
    return cur


def _pred_of_in(av, st):
    items = []
    negate = False
    for op, a in av:
        if op is sre_c.NEGATE:
            negate = True
        elif op is sre_c.LITERAL:
            items.append(('lit', a))
        elif op is sre_c.RANGE:
            items.append(('range', a[0], a[1]))
        elif op is sre_c.CATEGORY:
            items.append(('cat', a))
        else:
            raise Unsupported('set item %s' % op)
    return Pred(items, negate, st['ic'], ascii_=st.get('ascii', False))


def _node(nfa, op, av, s, st, last=False, first=False):
    if op is sre_c.LITERAL:
        t = nfa.new()
        nfa.add_chr(s, Pred([('lit', av)], False, st['ic'], ascii_=st.get('ascii', False)), t)
        return t
    if op is sre_c.NOT_LITERAL:
        t = nfa.new()
        nfa.add_chr(s, Pred([('lit', av)], True, st['ic'], ascii_=st.get('ascii', False)), t)
        return t
    if op is sre_c.ANY:
        t = nfa.new()
        nfa.add_chr(s, Pred([], any_=True, dotall=st['dotall']), t)
        return t
    if op is sre_c.IN:
        t = nfa.new()
        nfa.add_chr(s, _pred_of_in(av, st), t)
        return t
    if op is sre_c.BRANCH:
        t = nfa.new()
        for alt in av[1]:
            a = nfa.new()
            nfa.add_eps(s, a)
            e = _seq(nfa, alt, a, st, top=False)
            # anchors/look-aheads that end an alternative of a top-level branch
            nfa.add_eps(e, t)
        return t
    if op is sre_c.GROUPREF and av in st.get('bind', {}):
        t = nfa.new()
        nfa.add_chr(s, Pred([('lit', st['bind'][av])], False, st['ic'], ascii_=st.get('ascii', False)), t)
        return t
    if op is sre_c.SUBPATTERN and av[0] in st.get('bind', {}):
        t = nfa.new()
        nfa.add_chr(s, Pred([('lit', st['bind'][av[0]])], False, False), t)
        st['groups'][av[0]] = (s, t)
        return t
    if op is sre_c.SUBPATTERN:
        group, add_flags, del_flags, p = av
        old = st['ic']
        if add_flags & sre_c.SRE_FLAG_IGNORECASE:
            st['ic'] = True
        if del_flags & sre_c.SRE_FLAG_IGNORECASE:
            st['ic'] = False
        e = _seq(nfa, p, s, st, top=False)
        if group is not None:
            st['groups'][group] = (s, e)
        st['ic'] = old
        # trailing look-ahead / anchor inside the last group
        return e
    if op in (sre_c.MAX_REPEAT, sre_c.MIN_REPEAT) or (hasattr(sre_c, 'POSSESSIVE_REPEAT') and op is sre_c.POSSESSIVE_REPEAT):
        lo, hi, p = av
        cur = s
        for _ in range(lo):
            cur = _seq(nfa, p, cur, st)
        if hi is MAXREPEAT or hi == MAXREPEAT:
            loop = nfa.new()
            nfa.add_eps(cur, loop)
            e = _seq(nfa, p, loop, st)
            nfa.add_eps(e, loop)
            out = nfa.new()
            nfa.add_eps(loop, out)
            return out
        if hi - lo > 64:
            raise Unsupported('bounded repeat too large')
        out = nfa.new()
        nfa.add_eps(cur, out)
        for _ in range(hi - lo):
            cur = _seq(nfa, p, cur, st)
            nfa.add_eps(cur, out)
        return out
    if op is sre_c.AT:
        name = str(av)
        if 'BEGINNING' in name:
            return s                 # match() semantics / anchored at the start anyway
        if name.endswith('AT_END_STRING'):
            return s
        if name.endswith('AT_END'):
            # end, or just before a final newline
            t = nfa.new()
            nfa.add_eps(s, t)
            nfa.add_chr(s, Pred([('lit', 10)]), t)
            st.setdefault('dollar', []).append(t)
            return t
        raise Unsupported('anchor %s' % name)
    if op is sre_c.ASSERT:
        direction, p = av
        if direction == 1 and len(p) == 1 and p[0][0] in (sre_c.IN, sre_c.LITERAL) and st['lookahead_consumes']:
            return _node(nfa, p[0][0], p[0][1], s, st)
        raise Unsupported('look-around')
    if hasattr(sre_c, 'ATOMIC_GROUP') and op is sre_c.ATOMIC_GROUP:
        return _seq(nfa, av, s, st)
    raise Unsupported('regex construct %s' % op)


# ---------------------------------------------------------------------------------------------------
# alphabet and DFA

def alphabet(nfas, extra=''):
    pts = set(ord(c) for c in CATEGORY_REPS)
    pts.update(ord(c) for c in extra)
    for n in nfas:
        for p in n.preds:
            pts.update(p.points())
    chars = [chr(p) for p in sorted(pts) if 0 <= p < 0x110000 and not (0xD800 <= p <= 0xDFFF)]
    # merge characters that no predicate distinguishes
    preds = [p for n in nfas for p in n.preds]
    classes = {}
    for ch in chars:
        sig = tuple(p.test(ch) for p in preds)
        classes.setdefault(sig, ch)
    return sorted(classes.values())


def difference_witness(a, b, alpha, limit=200000):
    """A string accepted by NFA ``a`` but not by ``b`` (shortest, over ``alpha``), or None if L(a) subset of L(b)."""
    from collections import deque
    sa0, sb0 = a.closure([a.start]), b.closure([b.start])
    seen = set([(sa0, sb0)])
    dq = deque([(sa0, sb0, '')])
    n = 0
    while dq:
        sa_, sb_, w = dq.popleft()
        if a.final in sa_ and b.final not in sb_:
            return w
        n += 1
        if n > limit:
            raise AnalysisError('regex product automaton too large')
        for ch in alpha:
            na = a.step(sa_, ch)
            if not na:
                continue
            nb = b.step(sb_, ch)
            key = (na, nb)
            if key not in seen:
                seen.add(key)
                dq.append((na, nb, w + ch))
    return None


def intersection_witness(a, b, alpha, limit=200000):
    """A string accepted by both NFAs (shortest), or None."""
    from collections import deque
    sa0, sb0 = a.closure([a.start]), b.closure([b.start])
    seen = set([(sa0, sb0)])
    dq = deque([(sa0, sb0, '')])
    n = 0
    while dq:
        sa_, sb_, w = dq.popleft()
        if a.final in sa_ and b.final in sb_:
            return w
        n += 1
        if n > limit:
            raise AnalysisError('regex product automaton too large')
        for ch in alpha:
            na = a.step(sa_, ch)
            nb = b.step(sb_, ch)
            if not na or not nb:
                continue
            key = (na, nb)
            if key not in seen:
                seen.add(key)
                dq.append((na, nb, w + ch))
    return None


def some_word(a, alpha, pred=None, limit=100000):
    """Shortest accepted word (optionally satisfying pred)."""
    from collections import deque
    s0 = a.closure([a.start])
    seen = set([s0])
    dq = deque([(s0, '')])
    while dq:
        s, w = dq.popleft()
        if a.final in s and (pred is None or pred(w)):
            return w
        for ch in alpha:
            ns = a.step(s, ch)
            if ns and ns not in seen:
                seen.add(ns)
                dq.append((ns, w + ch))
    return None


# ---------------------------------------------------------------------------------------------------
# exponential ambiguity

def eda_witness(nfa, alpha):
    """Detect exponential degree of ambiguity.  Returns (state, word) such that two *distinct* transition sequences read
    ``word`` from ``state`` back to ``state``, or None.

    Macro-steps: a simple epsilon-path followed by one character edge.  Two macro-steps are distinct when their
    transition sequences differ.  Product construction over pairs of macro-states, looking for a cycle through a
    diagonal pair (q, q) that leaves the diagonal (or uses two different macro-steps between the same states)."""
    # macro transitions from each state: list of (pred, target, path-id)
    macro = {}

    def macro_from(s):
        if s in macro:
            return macro[s]
        out = []
        stack = [(s, (), frozenset([s]))]
        guard = 0
        while stack:
            cur, path, visited = stack.pop()
            guard += 1
            if guard > 20000:
                raise AnalysisError('regex too ambiguous to analyse (epsilon paths)')
            for pred, t, eid in nfa.chr[cur]:
                out.append((pred, t, path + (eid,)))
            for t, eid in nfa.eps[cur]:
                if t in visited:
                    # an epsilon cycle (e.g. (a*)*): infinitely many paths -> report as ambiguous immediately
                    out.append(('EPSCYCLE', t, path + (eid,)))
                    continue
                stack.append((t, path + (eid,), visited | frozenset([t])))
        macro[s] = out
        return out

    # states that matter: start and targets of character edges
    states = set([nfa.start])
    for s in range(nfa.n):
        for pred, t, eid in nfa.chr[s]:
            states.add(t)
    for s in states:
        for tr in macro_from(s):
            if tr[0] == 'EPSCYCLE':
                return (s, '<empty-loop>')
    # can the accepting state still be missed afterwards?  (a blow-up needs a failing continuation; any regex that is
    # followed by something that can fail qualifies, so we do not restrict further)
    # product graph
    succ = {}

    def psucc(p, q):
        key = (p, q)
        if key in succ:
            return succ[key]
        out = []
        for pr1, t1, id1 in macro_from(p):
            for pr2, t2, id2 in macro_from(q):
                if p == q and id1 == id2:
                    # same macro-step on the diagonal stays on the diagonal
                    for ch in alpha:
                        if pr1.test(ch):
                            out.append(((t1, t1), ch, False))
                            break
                    continue
                for ch in alpha:
                    if pr1.test(ch) and pr2.test(ch):
                        out.append(((t1, t2), ch, p == q))      # diverged here if we were on the diagonal
                        break
        succ[key] = out
        return out

    for q in sorted(states):
        # search for a path (q,q) -> ... -> (q,q) that contains at least one divergence
        from collections import deque
        start = ((q, q), False)
        seen = set([start])
        dq = deque([(start, '')])
        steps = 0
        while dq:
            ((p1, p2), div), w = dq.popleft()
            steps += 1
            if steps > 50000:
                break
            for (n1, n2), ch, diverged in psucc(p1, p2):
                nd = div or diverged
                if (n1, n2) == (q, q) and nd:
                    return (q, w + ch)
                node = ((n1, n2), nd)
                if node not in seen:
                    seen.add(node)
                    dq.append((node, w + ch))
    return None


def literal_lexeme(pattern):
    """If the regex denotes exactly one literal string, return it (e.g. r'\\<\\=' -> '<=')."""
    try:
        tree = sre_parse.parse(pattern, getattr(pattern, 'flags', 0))
    except Exception:
        return None
    out = []
    for op, av in tree:
        if op is sre_c.LITERAL:
            out.append(chr(av))
        else:
            return None
    return ''.join(out)


def group_nfas(pattern, flags=0):
    """{group number: NFA of that capture group's own language} and the list of top-level items
    ('group', n, optional?) / ('anchor', name) / ('other',) in order."""
    tree = sre_parse.parse(pattern, flags)
    out = {}
    layout = []

    def visit(sub, optional):
        for op, av in sub:
            if op is sre_c.SUBPATTERN:
                group, add_flags, del_flags, p = av
                if group is not None:
                    nfa = NFA()
                    st = {'ic': bool(tree.state.flags & sre_c.SRE_FLAG_IGNORECASE), 'dotall': False, 'lookahead_consumes': True, 'groups': {},
                          'ascii': bool(tree.state.flags & sre_c.SRE_FLAG_ASCII)}
                    s0 = nfa.new()
                    f0 = _seq(nfa, p, s0, st)
                    nfa.start, nfa.final = s0, f0
                    out[group] = nfa
                    layout.append(('group', group, optional))
                else:
                    visit(p, optional)
            elif op in (sre_c.MAX_REPEAT, sre_c.MIN_REPEAT):
                lo, hi, p = av
                inner_groups = [x for x in p if x[0] is sre_c.SUBPATTERN]
                if inner_groups:
                    visit(p, optional or lo == 0)
                else:
                    layout.append(('other',))
            elif op is sre_c.AT:
                layout.append(('anchor', str(av)))
            else:
                layout.append(('other',))
    visit(tree, False)
    return out, layout
