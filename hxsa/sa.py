# -*- coding: utf-8 -*-
"""Small shared syntactic helpers (name binding, self attributes, three-valued truthiness)."""
import ast
from .paths import walk_no_defs, function_paths
from .model import src


def params(func):
    a = func.args
    out = [x.arg for x in getattr(a, 'posonlyargs', [])] + [x.arg for x in a.args]
    return out


def vararg(func):
    return func.args.vararg.arg if func.args.vararg else None


def kwarg(func):
    return func.args.kwarg.arg if func.args.kwarg else None


def self_name(func):
    p = params(func)
    return p[0] if p else None


# Name nodes (by id) that are uses of a local bound exactly once to self.<attr>:  registry = self._e ; registry[name]
SELF_ATTR_ALIASES = {}


def register_self_attr_aliases(func):
    """Record the locals of ``func`` that are bound exactly once, to ``self.<attr>``, so that is_self_attr() sees through them."""
    s = self_name(func)
    if s is None:
        return
    bound = {}
    for n in ast.walk(func):
        if isinstance(n, ast.Name) and isinstance(n.ctx, (ast.Store, ast.Del)):
            bound[n.id] = bound.get(n.id, 0) + 1
    for st in ast.walk(func):
        if isinstance(st, ast.Assign) and len(st.targets) == 1 and isinstance(st.targets[0], ast.Name) and \
                isinstance(st.value, ast.Attribute) and isinstance(st.value.value, ast.Name) and st.value.value.id == s and \
                bound.get(st.targets[0].id) == 1 and st.targets[0].id not in params(func):
            for n in ast.walk(func):
                if isinstance(n, ast.Name) and n.id == st.targets[0].id and isinstance(n.ctx, ast.Load):
                    SELF_ATTR_ALIASES[id(n)] = (s, st.value.attr)
            SELF_ATTR_ALIASES[id(st.value)] = ('<alias definition>', st.value.attr)


def is_alias_definition(node):
    """``node`` is the self.<attr> on the right of  local = self.<attr>  (a registered alias)."""
    return SELF_ATTR_ALIASES.get(id(node), (None,))[0] == '<alias definition>'


def is_self_attr(node, selfname, attr=None):
    if isinstance(node, ast.Name) and id(node) in SELF_ATTR_ALIASES:
        s_, a_ = SELF_ATTR_ALIASES[id(node)]
        return s_ == selfname and (attr is None or a_ == attr)
    return (isinstance(node, ast.Attribute) and isinstance(node.value, ast.Name)
            and node.value.id == selfname and (attr is None or node.attr == attr))


def assignments_to(func, name):
    """All value nodes assigned to local ``name`` in ``func`` (not descending into nested defs).
    Returns a list of (stmt, value-or-None); value None = bound by something we do not model
    (for target, with, augmented assignment, tuple unpacking)."""
    out = []
    for n in walk_no_defs(func):
        if n is func:
            continue
        if isinstance(n, ast.Assign):
            for t in n.targets:
                if isinstance(t, ast.Name) and t.id == name:
                    out.append((n, n.value))
                elif isinstance(t, (ast.Tuple, ast.List)) and any(isinstance(e, ast.Name) and e.id == name
                                                                   for e in ast.walk(t)):
                    out.append((n, None))
        elif isinstance(n, ast.AugAssign) and isinstance(n.target, ast.Name) and n.target.id == name:
            out.append((n, None))
        elif isinstance(n, ast.AnnAssign) and isinstance(n.target, ast.Name) and n.target.id == name:
            out.append((n, n.value))
        elif isinstance(n, (ast.For, ast.AsyncFor)):
            if any(isinstance(e, ast.Name) and e.id == name for e in ast.walk(n.target)):
                out.append((n, None))
        elif isinstance(n, ast.NamedExpr) and n.target.id == name:
            out.append((n, n.value))
        elif isinstance(n, (ast.With, ast.AsyncWith)):
            for it in n.items:
                if it.optional_vars is not None and any(isinstance(e, ast.Name) and e.id == name
                                                        for e in ast.walk(it.optional_vars)):
                    out.append((n, None))
        elif isinstance(n, ast.ExceptHandler) and n.name == name:
            out.append((n, None))
        elif isinstance(n, (ast.FunctionDef, ast.ClassDef)) and n.name == name:
            out.append((n, None))
    return out


def resolve_local(func, node, depth=0):
    """Follow a local Name bound exactly once to its value expression (transitively)."""
    while isinstance(node, ast.Name) and depth < 6:
        if node.id in params(func) or node.id in (vararg(func), kwarg(func)):
            return node
        asg = assignments_to(func, node.id)
        if len(asg) != 1 or asg[0][1] is None:
            return node
        node = asg[0][1]
        depth += 1
    return node


def nested_defs(func):
    return [n for n in walk_no_defs(func) if n is not func and isinstance(n, (ast.FunctionDef, ast.Lambda))]


def call_name(call):
    """Dotted textual name of the callee ('self.off', 'fnmatch.fnmatch', 'len')."""
    f = call.func
    parts = []
    while isinstance(f, ast.Attribute):
        parts.append(f.attr)
        f = f.value
    if isinstance(f, ast.Name):
        parts.append(f.id)
        return '.'.join(reversed(parts))
    return None


# ---------------------------------------------------------------------------------------------------
# three-valued truthiness

def eval3(test, env):
    """Truthiness of ``test`` under ``env`` (maps ast.unparse text of an expression to True/False).
    Returns True / False / None (unknown)."""
    key = src(test)
    if key in env:
        return env[key]
    if isinstance(test, ast.Constant):
        return bool(test.value)
    if isinstance(test, (ast.List, ast.Tuple, ast.Set)):
        return bool(test.elts)
    if isinstance(test, ast.Dict):
        return bool(test.keys)
    if isinstance(test, ast.UnaryOp) and isinstance(test.op, ast.Not):
        v = eval3(test.operand, env)
        return None if v is None else (not v)
    if isinstance(test, ast.BoolOp):
        vals = [eval3(v, env) for v in test.values]
        if isinstance(test.op, ast.And):
            if any(v is False for v in vals):
                return False
            if all(v is True for v in vals):
                return True
            return None
        if any(v is True for v in vals):
            return True
        if all(v is False for v in vals):
            return False
        return None
    if isinstance(test, ast.Compare) and len(test.ops) == 1:
        l, r = test.left, test.comparators[0]
        op = test.ops[0]
        if isinstance(op, (ast.Is, ast.IsNot)) and isinstance(r, ast.Constant) and r.value is None:
            k = src(l) + ' is None'
            if k in env:
                return env[k] if isinstance(op, ast.Is) else (not env[k])
    return None


def feasible_paths(func, assume):
    """Paths of ``func`` that are consistent with the truthiness assumptions ``assume``
    ({expr-text: bool}); tracks truthiness of locals bound to constants / empty displays."""
    out = []
    for p in function_paths(func):
        env = dict(assume)
        ok = True
        for it in p.items:
            if it[0] == 'cond':
                v = eval3(it[1], env)
                if v is not None and v != it[2]:
                    ok = False
                    break
                if v is None:
                    # learn from the decision
                    from .paths import atoms
                    for a, t in atoms(it[1], it[2]):
                        env.setdefault(src(a), t)
            elif it[0] == 'stmt':
                n = it[1]
                _forget_mutated(n, env)
                if isinstance(n, ast.Assign) and len(n.targets) == 1 and isinstance(n.targets[0], ast.Name):
                    v = eval3(n.value, env)
                    k = n.targets[0].id
                    _forget_name(k, env)
                    if v is not None:
                        env[k] = v
            elif it[0] == 'loop':
                node = it[1]
                if it[2] == 1:
                    for sub in ast.walk(node):
                        if isinstance(sub, ast.Name) and isinstance(sub.ctx, ast.Store):
                            _forget_name(sub.id, env)
                    for sub in ast.walk(node):
                        _forget_mutated(sub, env) if isinstance(sub, ast.stmt) else None
                elif isinstance(node, ast.While):
                    v = eval3(node.test, env)
                    if v is True:
                        ok = False
                        break
                elif isinstance(node, ast.For):
                    # a for loop over a container known to be non-empty cannot be skipped
                    v = eval3(node.iter, env)
                    if v is True:
                        ok = False
                        break
        if ok:
            out.append(p)
    return out


def _forget_name(name, env):
    for k in list(env):
        try:
            if name in [n.id for n in ast.walk(ast.parse(k, mode='eval')) if isinstance(n, ast.Name)]:
                del env[k]
        except SyntaxError:
            pass


def _forget_mutated(stmt, env):
    """A method call on a local (x.append(...)) or passing it to a call may change its truthiness."""
    for n in ast.walk(stmt):
        if isinstance(n, ast.Call) and isinstance(n.func, ast.Attribute) and isinstance(n.func.value, ast.Name):
            _forget_name(n.func.value.id, env)
        if isinstance(n, (ast.AugAssign,)) and isinstance(n.target, ast.Name):
            _forget_name(n.target.id, env)
        if isinstance(n, ast.Delete):
            for t in n.targets:
                for s in ast.walk(t):
                    if isinstance(s, ast.Name):
                        _forget_name(s.id, env)


LOGGER_METHODS = ('debug', 'info', 'warning', 'warn', 'error', 'exception', 'critical', 'log', 'isEnabledFor')


def is_logger_call(model, m, call):
    """``x.debug(...)`` etc. where x is a module-level name (or a dotted module attribute) bound to ``logging.getLogger(...)``:
    the standard library's logging calls never raise to the caller (formatting and handler errors are caught inside logging and at
    most printed) and change no program state."""
    f = call.func
    if not (isinstance(f, ast.Attribute) and f.attr in LOGGER_METHODS and isinstance(f.value, (ast.Name, ast.Attribute))):
        return False
    try:
        r = model.resolve_attr_chain(m, f.value)
    except Exception:
        r = None
    if r and r[0] == 'const' and isinstance(r[3], ast.Call) and (call_name(r[3]) or '').split('.')[-1] == 'getLogger':
        return True
    return False
