# -*- coding: utf-8 -*-
"""Checker self-validation.

``smoke``: the framework imports, the working tree parses, every rule module loads.
``run``:   each property's rules are re-run on scratch copies of the working tree carrying one seeded breaking
           edit (must be reported) or one behaviour-preserving edit (must stay silent).  A self-validation failure
           means the *checker* is broken: exit 2, never a VIOLATION of the property.
"""
import importlib
import os
import sys

from .model import Model, AnalysisError


def smoke(repo):
    try:
        model = Model(repo)
        n = 0
        rules_dir = os.path.join(os.path.dirname(__file__), 'rules')
        for fn in sorted(os.listdir(rules_dir)):
            if fn.startswith('c') and fn.endswith('.py'):
                importlib.import_module('hxsa.rules.' + fn[:-3])
                n += 1
        print('hxsa smoke ok: %d modules parsed, %d rule modules loaded, %d registered names'
              % (len(model.modules), n, len(model.registry)))
        return 0
    except AnalysisError as e:
        print('ANALYSIS-ERROR smoke: %s' % e)
        return 2


def run(props, repo, jobs=16, quiet=False):
    try:
        from . import variants
    except ImportError:
        if not quiet:
            print('selftest: no variant catalogue yet')
        return 0
    return variants.run(props, repo, jobs=jobs, quiet=quiet)
