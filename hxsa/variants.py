# -*- coding: utf-8 -*-
"""Checker self-validation on scratch copies of the *current* working tree.

Breaking variants  = the confirmed seeded changes under /verif/seeded/<name>/ (patch.diff + meta.json naming the property):
                     the property's check must report a VIOLATION on the patched copy (unless the catalogue lists the
                     variant as a known miss of this technique).
Benign variants    = behaviour-preserving refactorings under /verif/benign/<name>/: every check must stay silent.

A variant whose patch does not apply to the current tree is skipped (the tree has moved on), never an error.
A self-validation failure means the checker is broken: exit 2, never a VIOLATION of the property.
Scratch copies live in tempfile.mkdtemp() directories outside /repo and /verif and are removed immediately.
"""
import concurrent.futures
import glob
import json
import os
import shutil
import subprocess
import sys
import tempfile

HERE = os.path.dirname(os.path.dirname(os.path.abspath(__file__)))
PY = sys.executable or '/venv/bin/python'


def tree_digest(repo):
    """Digest of the analysed sources (package *.py, SUPPORTED_FORMULAS.md)."""
    import hashlib
    h = hashlib.sha256()
    files = []
    for root, dirs, fs in os.walk(os.path.join(repo, 'hotxlfp')):
        dirs[:] = sorted(d for d in dirs if d != '__pycache__')
        for f in sorted(fs):
            if f.endswith('.py') and not f.endswith('parsetab.py'):
                files.append(os.path.join(root, f))
    files.append(os.path.join(repo, 'SUPPORTED_FORMULAS.md'))
    for f in files:
        if os.path.exists(f):
            h.update(os.path.relpath(f, repo).encode())
            h.update(open(f, 'rb').read())
    return h.hexdigest()


def pinned_digest():
    p = os.path.join(HERE, 'seeded', 'BASE.json')
    try:
        return json.load(open(p)).get('digest')
    except Exception:
        return None


def catalogue():
    out = []
    exp_path = os.path.join(HERE, 'seeded', 'EXPECTED.json')
    expected = json.load(open(exp_path)) if os.path.exists(exp_path) else {}
    for meta in sorted(glob.glob(os.path.join(HERE, 'seeded', '*', 'meta.json'))):
        d = os.path.dirname(meta)
        name = os.path.basename(d)
        mj = json.load(open(meta))
        out.append({'kind': 'breaking', 'name': name, 'patch': os.path.join(d, 'patch.diff'), 'property': mj['property'],
                    'expect_caught': expected.get(name, {}).get('caught_by_own', True)})
    for meta in sorted(glob.glob(os.path.join(HERE, 'benign', '*', 'meta.json'))):
        d = os.path.dirname(meta)
        mj = json.load(open(meta))
        out.append({'kind': 'benign', 'name': os.path.basename(d), 'patch': os.path.join(d, 'patch.diff'),
                    'silent_for': mj.get('must_stay_silent')})
    return out


def copy_tree(repo, d):
    """Scratch copy of the working tree of ``repo`` (everything but the git directory and byte-code caches): a variant may add,
    delete or move files, also outside the package."""
    for name in sorted(os.listdir(repo)):
        if name in ('.git', '__pycache__', '.pytest_cache') or name.endswith('.egg-info'):
            continue
        src_ = os.path.join(repo, name)
        if os.path.isdir(src_):
            shutil.copytree(src_, os.path.join(d, name), ignore=shutil.ignore_patterns('__pycache__', '*.pyc'))
        else:
            shutil.copy(src_, d)


def apply_patch(d, patch):
    """True when the patch applied (git apply understands new / deleted / renamed files; patch(1) as a fallback)."""
    r = subprocess.run(['git', 'apply', '--whitespace=nowarn', os.path.abspath(patch)], cwd=d, capture_output=True, text=True,
                       env=dict(os.environ, GIT_CEILING_DIRECTORIES=os.path.dirname(d), GIT_DIR=os.path.join(d, '.nogit')))
    if r.returncode == 0:
        return True
    r = subprocess.run(['patch', '-p1', '-s', '-f', '-d', d, '-i', os.path.abspath(patch)], capture_output=True, text=True)
    return r.returncode == 0


def _run_variant(job):
    v, repo, props = job
    d = tempfile.mkdtemp(prefix='hxsa_var_')
    try:
        copy_tree(repo, d)
        if not apply_patch(d, v['patch']):
            return v, None, 'patch does not apply to the current tree'
        results = {}
        for p in props:
            env = dict(os.environ, HXSA_EVIDENCE_DIR=os.path.join(d, '_evidence'))
            r = subprocess.run([PY, '-m', 'hxsa', 'check', p, '--tier', 'quick', '--repo', d], cwd=HERE, capture_output=True, text=True, env=env)
            results[p] = r.returncode
        return v, results, None
    finally:
        shutil.rmtree(d, ignore_errors=True)


def run(props, repo, jobs=16, quiet=False):
    rc, stats = run_stats(props, repo, jobs, quiet)
    return rc


def run_stats(props, repo, jobs=16, quiet=False):
    cat = catalogue()
    all_props = ['C%02d' % i for i in range(1, 21)]
    props = props or all_props
    jobs_list = []
    for v in cat:
        if v['kind'] == 'breaking':
            if v['property'] in props:
                jobs_list.append((v, repo, [v['property']]))
        else:
            targets = [p for p in props if (not v.get('silent_for') or True)]
            jobs_list.append((v, repo, targets))
    stats = {'breaking_run': 0, 'breaking_reported': 0, 'breaking_known_miss': 0, 'benign_run': 0, 'benign_silent': 0,
             'skipped_patch_does_not_apply': 0, 'failures': []}
    with concurrent.futures.ThreadPoolExecutor(max_workers=jobs) as ex:
        for v, results, err in ex.map(_run_variant, jobs_list):
            if err:
                stats['skipped_patch_does_not_apply'] += 1
                continue
            if v['kind'] == 'breaking':
                stats['breaking_run'] += 1
                rc = results[v['property']]
                if rc == 1:
                    stats['breaking_reported'] += 1
                elif not v['expect_caught']:
                    stats['breaking_known_miss'] += 1
                else:
                    stats['failures'].append('breaking variant %s (%s) was not reported (exit %d)' % (v['name'], v['property'], rc))
            else:
                for p, rc in sorted(results.items()):
                    stats['benign_run'] += 1
                    if rc == 0:
                        stats['benign_silent'] += 1
                    else:
                        stats['failures'].append('benign variant %s made the %s check exit %d' % (v['name'], p, rc))
    if not quiet or stats['failures']:
        print('self-validation: %d/%d breaking variants reported (%d known misses), %d/%d benign runs silent, %d skipped'
              % (stats['breaking_reported'], stats['breaking_run'], stats['breaking_known_miss'], stats['benign_silent'],
                 stats['benign_run'], stats['skipped_patch_does_not_apply']))
    # the catalogue was confirmed against one tree (seeded/BASE.json); on any other tree a variant may legitimately behave
    # differently (its patch lands on changed code), so the outcome is reported but does not fail the check
    pinned = pinned_digest()
    on_base = pinned is None or tree_digest(repo) == pinned
    stats['tree_is_confirmation_base'] = on_base
    for f in stats['failures']:
        print('%s self-validation: %s' % ('ANALYSIS-ERROR' if on_base else 'note (tree differs from the confirmation base):', f))
    return (2 if (stats['failures'] and on_base) else 0), stats
