import ast, sys, re
sys.path.insert(0, '/venv/lib/python3.12/site-packages')
from ply import yacc
src = open('/repo/hotxlfp/grammarparser/parser.py').read()
tree = ast.parse(src)
lexsrc = ast.parse(open('/repo/hotxlfp/grammarparser/lexer.py').read())
tokens = None
for n in lexsrc.body:
    if isinstance(n, ast.Assign) and n.targets[0].id == 'tokens':
        tokens = [e.value for e in n.value.elts]
classes = {c.name: c for c in tree.body if isinstance(c, ast.ClassDef)}
prec = None
for n in classes['Parser'].body:
    if isinstance(n, ast.Assign) and n.targets[0].id == 'precedence':
        prec = ast.literal_eval(n.value)
g = yacc.Grammar(tokens)
for level, p in enumerate(prec):
    for t in p[1:]:
        g.set_precedence(t, p[0], level+1)
funcs = [f for f in classes['FormulaParser'].body if isinstance(f, ast.FunctionDef) and f.name.startswith('p_') and f.name != 'p_error']
funcs.sort(key=lambda f: f.lineno)
for f in funcs:
    doc = ast.get_docstring(f, clean=False)
    for (file, line, prodname, syms) in yacc.parse_grammar(doc, 'parser.py', f.lineno):
        g.add_production(prodname, syms, f.name, file, line)
g.set_start()
print('undefined', g.undefined_symbols(), 'unused terms', g.unused_terminals(), 'unused prec', g.unused_precedence())
lr = yacc.LRGeneratedTable(g, 'LALR')
print('states', len(lr.lr_action), 'sr', len(lr.sr_conflicts), 'rr', len(lr.rr_conflicts))
for st, tok, res in lr.sr_conflicts[:80]:
    pass
from collections import Counter
print(Counter((tok,res) for st,tok,res in lr.sr_conflicts))
for st, rule, rej in lr.rr_conflicts: print('RR', st, rule, '| rejected', rej)
# signature
import hashlib
# compare with parsetab in working tree (read statically via ast.literal_eval)
pt = ast.parse(open('/repo/hotxlfp/grammarparser/parser_FormulaParser_parsetab.py').read())
vals = {}
for n in pt.body:
    if isinstance(n, ast.Assign) and isinstance(n.targets[0], ast.Name):
        try: vals[n.targets[0].id] = ast.literal_eval(n.value)
        except Exception as e: pass
print(sorted(vals))
act = {}
for k, v in vals['_lr_action_items'].items():
    for x, y in zip(v[0], v[1]):
        act.setdefault(x, {})[k] = y
print('action tables equal:', act == lr.lr_action)
goto = {}
for k, v in vals['_lr_goto_items'].items():
    for x, y in zip(v[0], v[1]):
        goto.setdefault(x, {})[k] = y
print('goto equal:', goto == lr.lr_goto)
print('prods equal:', [(str(p), p.name, p.len, p.func) for p in g.Productions] == [(a,b,c,d) for a,b,c,d,e,f in vals['_lr_productions']])
# signature recomputation like ply
parts = []
parts.append(None)  # start
print(vals['_lr_signature'][:200])
# what do the operator conflict states look like
names = {str(p): i for i, p in enumerate(g.Productions)}
binops = ['PLUS','MINUS','MULT','DIV','AMP','GREATER','LESS','GREATEREQ','LESSEQ','EQUAL','NOTEQUAL']
# For each state containing completed item 'expression -> expression OP expression .' show action on each binop lookahead
table = {}
for st, I in enumerate(lr.lr0_items() if False else []): pass
C = lr.lr0_items()
for st, I in enumerate(C):
    for item in I:
        if item.len == item.lr_index + 1 and item.name == 'expression' and len(item.prod) >= 3 and item.number>0:
            p = g.Productions[item.number]
            if p.len == 3 and p.prod[0]=='expression' and p.prod[2]=='expression' and p.prod[1] in binops:
                row = {}
                for la in binops:
                    a = lr.lr_action[st].get(la)
                    row[la] = 'R' if (a is not None and a < 0) else ('S' if a else a)
                table[p.prod[1]] = row
            if p.len == 2 and p.prod[0]=='MINUS':
                table['UMINUS'] = {la: ('R' if lr.lr_action[st].get(la,0)<0 else 'S') for la in binops}
print('%-10s'%'' + ' '.join('%-5s'%b[:5] for b in binops))
for k, row in table.items():
    print('%-10s'%k + ' '.join('%-5s'%row[b] for b in binops))
