import hotxlfp, gc, types
from hotxlfp.formulas import error
from hotxlfp.helper.cell import extract_label, to_label
p = hotxlfp.Parser()
def tbcount():
    gc.collect()
    n=0
    for e in (error.NAME, error.DIV_ZERO, error.ERROR, error.NOT_AVAILABLE):
        tb = e.__traceback__
        while tb: n+=1; tb = tb.tb_next
    return n
for i in range(3):
    p.parse('foo'); print('after foo', tbcount())
for i in range(3):
    p.parse('CONCATENATE(1/0)'); print('after concat', tbcount())
# C03 nested with prebuilt inner
inner = hotxlfp.Parser()
outer = hotxlfp.Parser()
outer.set_function('INNER', lambda: inner.parse('1+1')['result'])
print('nested prebuilt inner:', outer.parse('INNER()+10'), 'expected 12')
outer2 = hotxlfp.Parser()
outer2.set_function('SELF', lambda: outer2.parse('2*3')['result'])
print('nested same:', outer2.parse('SELF()+10'), 'expected 16')
# C10
ev=[]
q = hotxlfp.Parser()
q.on('callRangeValue', lambda s,e,done: ev.append((s,e)))
q.parse('SUM(A5:A1)'); q.parse('SUM(b2:A1)'); q.parse('SUM($C$1:a3)')
for s,e in ev: print(s, e)
print(repr(extract_label('A1\n')), extract_label('A0'), extract_label('A01'))
print(to_label(*extract_label('$ab$12')), to_label(*extract_label('A01')))
