import hotxlfp, threading
print(hotxlfp.__file__)
inner = hotxlfp.Parser(); outer = hotxlfp.Parser()
outer.set_function('INNER', lambda: inner.parse('1+1')['result'])
print('nested prebuilt inner:', outer.parse('INNER()+10'))
o2 = hotxlfp.Parser(); o2.set_function('SELF', lambda: o2.parse('2*3')['result'])
print('nested same:', o2.parse('SELF()+10*2'))
p = hotxlfp.Parser()
for f in ['NOSUCH(1)', 'NOSUCH(1)+1', '1+NOSUCH()', 'IFERROR(SUM(1/0),7)', '(1/0)=1', 'ATAN2(1,0)', 'ATAN2(0,0)', 'COUNTIF({"ab","cd"},"a*")', 'DATEVALUE(DATE(1900,3,1))', 'DATE(1900,3,1)+1', 'ISNA(SUM(NA()))', 'IFERROR(#N/A,1)']:
    print(f, p.parse(f))
# threads
errs=[]
def work(k):
    q = hotxlfp.Parser()
    for i in range(300):
        r = q.parse('SUM(%d,2,3)*2+LEN("abc def")' % k)
        if r['result'] != (k+5)*2+7: errs.append((k, r))
ts=[threading.Thread(target=work,args=(k,)) for k in range(8)]
[t.start() for t in ts]; [t.join() for t in ts]
print('thread errs', len(errs), errs[:2])
