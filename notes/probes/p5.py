import hotxlfp
p = hotxlfp.Parser()
for f in ['TRUE<3','TRUE>3','1=TRUE','TRUE=1','TRUE=TRUE','FALSE<TRUE','3<TRUE','DATE(2020,1,1)<TRUE','TRUE>DATE(2020,1,1)','"a"<TRUE','1<2','1.5>1','B3=FALSE','B3<TRUE','TRUE>=1','1<=TRUE','1<>TRUE', 'A1&"x"', '"x"&A1&1&1.5', '(1/0)&"a"','"a"&(1/0)', '-(1/0)', '-(3)', '(1/0)=1', '1<(1/0)']:
    print('%-26s %r' % (f, p.parse(f)))
