import hotxlfp
from hotxlfp.helper.cell import extract_label
p = hotxlfp.Parser()
ev=[]
p.on('callRangeValue', lambda s,e,done: ev.append((s.label,s.row.index,s.col.index,e.label,e.row.index,e.col.index)))
for f in ['SUM(A5:A1)','SUM(b2:A1)','SUM($C$1:a3)','SUM(A1:$B2)']: p.parse(f)
print(ev)
for f in ['MAXIFS({-1,-2},{1,1},"1")','MAXIFS({-1,-2},{1,1},"7")','MAXIFS({3,9},{1,1},"1")','AND(1/0)','AND(FALSE,1/0)','OR(TRUE,1/0)','XOR(1/0,1)','NOT(1/0)','IF(1/0,1,2)','IFS(FALSE,1,1/0,2,TRUE,3)','IFS(TRUE,1,1/0,2)','AND(TRUE,{1,0})','OR(0,0)','XOR(1,1,1)',
  'RIGHT("abc",0)','RIGHT("abc",2)','RIGHT("abc",9)','LEFT("abc",0)','SUBSTITUTE("abc","b","")','SUBSTITUTE("abcb","b","",2)','SUBSTITUTE("abc","x","y")',
  'DEC2HEX(549755813888)','DEC2HEX(549755813887)','DEC2HEX(-549755813888)','DEC2HEX(-549755813889)','HEX2DEC("10000000000")','HEX2DEC("FFFFFFFFFF")','HEX2DEC("7FFFFFFFFF")','DEC2HEX(255,4)',
  'BASE(255,16)','BASE(5,1)','BASE(-5,2)','BASE(35,36)','BASE(5,37)','DECIMAL(BASE(12345,36),36)', 'BASE(7,2)']:
    print('%-34s %r' % (f, p.parse(f)))
print(repr(extract_label('A1\n')), extract_label('$a$7'))
