import hotxlfp
p = hotxlfp.Parser()
for f in ['INDEX({1,2,3},-1)','INDEX({1,2,3},0)','INDEX({1,2,3},,0)','INDEX({1,2,3},,-1)','INDEX({1,2;3,4},-1,1)','INDEX({1,2;3,4},1,-1)','INDEX({1,2;3,4},0,1)','INDEX({1,2;3,4},2,0)','INDEX({1,2;3,4},,0)','INDEX({1,2;3,4},3,1)','INDEX({1,2;3,4},1,3)','INDEX({1,2,3},4)','INDEX({1,2,3},3)', 'INDEX({1,2,3},0,2)', 'CHOOSE(0,1,2)','CHOOSE(3,1,2)','CHOOSE(2,1,2)', 'CHOOSE(-1,1,2)']:
    print('%-28s %r' % (f, p.parse(f)))
