import hotxlfp, signal
def h(*a): raise TimeoutError("HANG")
signal.signal(signal.SIGALRM, h)
p = hotxlfp.Parser()
def t(f):
    signal.alarm(2)
    try:
        r = p.parse(f)
    except BaseException as e:
        r = 'RAISED %r' % e
    signal.alarm(0)
    print('%-40s %r' % (f, r))
for f in ['NOSUCH(1)', 'NOSUCH(1)+1', 'NOSUCH()', '1+NOSUCH(2)', 'SUM(NOSUCH(1),2)', 'foo', 'BASE(255,16)', 'BASE(5,1)', 'BASE(-5,2)', 'ODD(0)',
          '(1/0)=1', '(1/0)&"a"', '-(1/0)', 'IFERROR(SUM(1/0),0)', 'AND(1/0)', 'NOT(1/0)', 'IF(1/0,1,2)', 'RIGHT("abc",0)', 'SUBSTITUTE("abc","b","")',
          'DATEVALUE(DATE(1900,3,1))','DATEVALUE(DATE(1900,2,28))', 'DATE(1900,3,1)+1', 'ATAN2(1,0)', 'TRUE<3', '1=TRUE', 'COUNTIF({"ab","cd"},"a*")', 'MAXIFS({-1,-2},{1,1},"1")',
          'INDEX({1,2,3},-1)', 'INDEX({1,2,3},0)', 'A1&"x"', '#N/A', '#FOO!', '1 +', '((', '"abc', 'SUM(1;2;3)', 'SUM(1\\2\\3)', '{1,2;3,4}', 'A1:B2', 'a1', '1^2', '5%', '.5', '1.5', 'SUM (1)', 'AVERAGEIFS({1,2},{1,1},"5")',
          'DEC2HEX(549755813888)', 'HEX2DEC("10000000000")', 'ROMAN(1.5)', 'SUBSTITUTE("aaa","","b",1)', 'FACT(100000)', 'FACT(1e308)', '9^999999999', 'POWER(10, 1e9)','ROUNDUP(1,1e9)']:
    t(f)
