import hotxlfp
p = hotxlfp.Parser()
log=[]
p.set_function('REC', lambda *a: log.append(a) or len(a))
for f in ['CONCATENATE("a",",")', 'REC("a",",")', 'REC("a";";")', 'REC("a"\\"\\\\")', 'REC(1,,2)', 'REC(,1)', 'REC(1,)', 'REC(,,)', 'REC(,)', 'REC(,,1)', 'REC(1,,)', 'REC(1,,,2)', 'REC({1,2;3,4})','REC({1;2;3})', 'REC({1,2;3,4;5,6})', 'REC(1,2;3,4)', 'LEN(",")', 'REC(",")', 'REC(1,",",2)', 'REC(",",1)', '{";",1}', '{1;";"}', '{1,2;";"}', '{1;2;";"}', 'REC({1,2;3})','REC({1,2;3,4}, 5)']:
    log.clear()
    print('%-28s %r   args=%r' % (f, p.parse(f), log))
