#!/venv/bin/python
"""add_fixed.py <property> <rule> <construct> <commit> <input> <what>  - append a 'fixed' entry to known_findings.json"""
import json, sys, os
p = os.path.join(os.path.dirname(os.path.dirname(os.path.abspath(__file__))), 'known_findings.json')
prop, rule, construct, commit, inp, what = sys.argv[1:7]
data = json.load(open(p))
data.append({'status': 'fixed', 'property': prop, 'rule': rule, 'construct': construct, 'commit': commit,
             'input': inp, 'what': what, 'line': 'fixed: property=%s %s %s' % (prop, commit, what)})
json.dump(data, open(p, 'w'), indent=1)
open(p, 'a').write('\n')
print(data[-1]['line'])
