#!/venv/bin/python
"""combine_on_base.py <M.diff> <agent out dir> <combined dir>: turn mutants written against a staged baseline M into patches against /repo HEAD
(<combined dir>/<Cxx>/m<k>.diff = M + mutant), copying the demo and meta files along."""
import glob, os, shutil, subprocess, sys, tempfile
M, out, comb = sys.argv[1:4]
for mf in sorted(glob.glob(os.path.join(out, 'C*', 'm?.diff'))):
    P = os.path.basename(os.path.dirname(mf)); k = os.path.basename(mf)[:2]
    d = tempfile.mkdtemp(prefix='cmb_')
    try:
        subprocess.check_call('git -C /repo archive HEAD | tar -x -C %s' % d, shell=True)
        run = lambda cmd: subprocess.run(cmd, shell=True, cwd=d, capture_output=True, text=True)
        run('git init -q . && git add -A && git -c user.email=x@x -c user.name=x commit -qm base')
        r1 = run('git apply --whitespace=nowarn %s' % M)
        r2 = run('git apply --whitespace=nowarn %s' % mf)
        if r1.returncode or r2.returncode:
            print('%s/%s combine FAILED: %s %s' % (P, k, r1.stderr[:100], r2.stderr[:200])); continue
        run('git add -A')
        diff = run('git diff --cached').stdout
        os.makedirs(os.path.join(comb, P), exist_ok=True)
        open(os.path.join(comb, P, k + '.diff'), 'w').write(diff)
        for suf in ('_demo.py', '_meta.json'):
            src = os.path.join(out, P, k + suf)
            if os.path.exists(src):
                shutil.copy(src, os.path.join(comb, P))
        print('%s/%s ok (%d lines)' % (P, k, diff.count('\n')))
    finally:
        shutil.rmtree(d, ignore_errors=True)
