#!/venv/bin/python
"""confirm_seeds.py <seedout dir> [names...]

For each candidate mutant (mK.diff, mK_demo.py, mK_meta.json under <seedout>/<Cxx>/) confirm on a scratch git worktree
of /repo (under /tmp, removed afterwards):
  1. the patch applies to /repo HEAD,
  2. the unedited test-suite passes with it,
  3. the demonstration exits non-zero with it,
  4. the demonstration exits 0 without it,
and copy confirmed ones to /verif/seeded/<Cxx>-<k>[-suffix]/{patch.diff, demo.py, meta.json}.
"""
import glob
import json
import os
import shutil
import subprocess
import sys
import tempfile

PY = '/venv/bin/python'
HERE = os.path.dirname(os.path.dirname(os.path.abspath(__file__)))


def sh(cmd, cwd=None, env=None, timeout=600):
    try:
        r = subprocess.run(cmd, cwd=cwd, env=env, capture_output=True, text=True, timeout=timeout)
        return r.returncode, (r.stdout + r.stderr)[-1500:]
    except subprocess.TimeoutExpired:
        return 124, 'timeout'


def main():
    src = sys.argv[1]
    suffix = ''
    args = sys.argv[2:]
    if args and args[0].startswith('--suffix='):
        suffix = args[0].split('=', 1)[1]
        args = args[1:]
    only = args
    wt = tempfile.mkdtemp(prefix='hxsa_confirm_')
    os.rmdir(wt)
    rc, out = sh(['git', '-C', '/repo', 'worktree', 'add', '--detach', '-q', wt, 'HEAD'])
    if rc != 0:
        print('cannot create worktree', out)
        return 1
    head = subprocess.check_output(['git', '-C', '/repo', 'rev-parse', '--short', 'HEAD'], text=True).strip()
    kept = 0
    try:
        for patch in sorted(glob.glob(os.path.join(src, 'C*', 'm*.diff'))):
            prop = os.path.basename(os.path.dirname(patch))
            k = os.path.basename(patch)[1:-5]
            name = '%s-%s%s' % (prop, k, suffix)
            if only and not any(o in name for o in only):
                continue
            demo = patch[:-5] + '_demo.py'
            meta = patch[:-5] + '_meta.json'
            if not (os.path.exists(demo) and os.path.exists(meta)):
                print('%-10s incomplete (no demo/meta)' % name)
                continue
            sh(['git', 'checkout', '-q', '--', '.'], cwd=wt)
            sh(['git', 'clean', '-fdq', '-e', '*parsetab.py'], cwd=wt)
            env = dict(os.environ, PYTHONPATH=wt)
            rc0, out0 = sh([PY, demo], cwd=wt, env=env, timeout=180)
            rc, out = sh(['git', 'apply', patch], cwd=wt)
            if rc != 0:
                print('%-10s patch does not apply to /repo HEAD: %s' % (name, out.strip()[-200:]))
                continue
            rct, outt = sh([PY, '-m', 'pytest', '-q', '-p', 'no:cacheprovider', '-x'], cwd=wt, timeout=900)
            tests_ok = rct == 0 and ' passed' in outt and 'failed' not in outt
            rc1, out1 = sh([PY, demo], cwd=wt, env=env, timeout=180)
            sh(['git', 'checkout', '-q', '--', '.'], cwd=wt)
            ok = rc0 == 0 and tests_ok and rc1 != 0
            print('%-10s %s  demo(clean)=%d tests=%s demo(mutant)=%d' % (name, 'CONFIRMED' if ok else 'rejected', rc0, 'pass' if tests_ok else 'FAIL', rc1))
            if not ok:
                continue
            d = os.path.join(HERE, 'seeded', name)
            os.makedirs(d, exist_ok=True)
            shutil.copy(patch, os.path.join(d, 'patch.diff'))
            shutil.copy(demo, os.path.join(d, 'demo.py'))
            mj = json.load(open(meta))
            mj['property'] = prop
            mj['confirmed'] = {
                'against_repo_commit': head,
                'what_was_run': [
                    'git worktree add <scratch> HEAD (of /repo)',
                    'PYTHONPATH=<scratch> /venv/bin/python demo.py  -> exit %d (clean tree)' % rc0,
                    'git apply patch.diff',
                    '/venv/bin/python -m pytest -q -p no:cacheprovider  -> all passed',
                    'PYTHONPATH=<scratch> /venv/bin/python demo.py  -> exit %d (with the change)' % rc1,
                ],
                'demo_output_with_change': out1.strip()[-600:],
            }
            mj.setdefault('needs_to_manifest', mj.get('needs', ''))
            json.dump(mj, open(os.path.join(d, 'meta.json'), 'w'), indent=1)
            kept += 1
    finally:
        sh(['git', '-C', '/repo', 'worktree', 'remove', '--force', wt])
        shutil.rmtree(wt, ignore_errors=True)
    print('kept', kept)
    return 0


if __name__ == '__main__':
    sys.exit(main())
