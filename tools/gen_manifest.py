#!/venv/bin/python
"""Regenerates /verif/MANIFEST.json from the table below (run from /verif)."""
import json
import os
import sys

HERE = os.path.dirname(os.path.dirname(os.path.abspath(__file__)))
sys.path.insert(0, HERE)
from hxsa.claims import CLAIMS, NOT_APPLICABLE   # noqa

PY = '/venv/bin/python'


def main():
    checks = []
    for pid in sorted(CLAIMS):
        c = CLAIMS[pid]
        if not os.path.exists(os.path.join(HERE, 'hxsa', 'rules', pid.lower() + '.py')):
            continue
        checks.append({
            'property_id': pid,
            'quick_cmd': '%s -m hxsa check %s --tier quick' % (PY, pid),
            'thorough_cmd': '%s -m hxsa check %s --tier thorough' % (PY, pid),
            'evidence_file': '/verif/evidence/%s.json' % pid,
            'replay_cmd_template': '%s -m hxsa explain {path}' % PY,
            'engine': 'hxsa',
            'level_claimed': {'category': 'other', 'text': c['level'], 'design_ref': c['ref']},
            'level_note': c['note'],
            'technique': c['technique'],
        })
    claimed = set(c['property_id'] for c in checks)
    na = []
    for pid in ['C%02d' % i for i in range(1, 21)]:
        if pid in claimed:
            continue
        na.append({'property_id': pid, 'reason': NOT_APPLICABLE.get(pid, 'static check not built yet in this round '
                                                                    '(planned in DESIGN.md section 5); not claimed')})
    man = {
        'version': 1,
        'setup_cmd': '%s -m hxsa selftest --smoke' % PY,
        'hooks': {
            'guard': 'AIDHOUND_HOTXLFP_VERIF',
            'enable': 'none needed: the checks parse the working tree with ast and never run hotxlfp; no hook commits exist',
            'baseline_off_cmd': 'cd /repo && /venv/bin/python -m pytest -ra -q -p no:cacheprovider --timeout=900',
            'source_commits': [],
            'add_only': True,
        },
        'engines': [{
            'name': 'hxsa',
            'path': '/verif/hxsa',
            'serves_properties': sorted(claimed),
            'kind_free_text': 'repository-specific static analysis in pure Python: ast program model, call graph, path '
                              'enumeration, type-tag abstract interpreter, effect/taint analysis, LALR table inspection via '
                              'ply as a table generator on ast-extracted grammar data, regex-AST analysis, affine/polynomial '
                              'forms, literal-table agreement',
        }],
        'checks': checks,
        'not_applicable': na,
        'notes': 'All checks are static (no execution of hotxlfp, no solver). Exit 0 = all obligations discharged or listed '
                 'known finding; exit 1 + VIOLATION line = an obligation refuted; exit 2 + ANALYSIS-ERROR = anchor vanished / '
                 'instance floor / unsupported construct (never reported as a violation). See DESIGN.md.',
    }
    with open(os.path.join(HERE, 'MANIFEST.json'), 'w') as fh:
        json.dump(man, fh, indent=1)
        fh.write('\n')
    print('MANIFEST.json: %d checks, %d not_applicable' % (len(checks), len(na)))


if __name__ == '__main__':
    main()
