#!/bin/bash
# usage: onev.sh <patch> <props...> : run checks on a scratch copy with patch
patch=$1; shift
d=$(mktemp -d /tmp/hxsa_one_XXXX)
git -C /repo archive HEAD | tar -x -C $d
cp /repo/hotxlfp/grammarparser/parser_FormulaParser_parsetab.py $d/hotxlfp/grammarparser/ 2>/dev/null
(cd $d && git apply --whitespace=nowarn $patch 2>/dev/null) || patch -p1 -s -f -d $d -i $patch || { echo "patch failed"; rm -rf $d; exit 3; }
cd /verif
for p in "$@"; do HXSA_EVIDENCE_DIR=$d/_ev /venv/bin/python -m hxsa check $p --repo $d 2>&1 | grep -v "^VIOLATION" | cut -c1-700 | tail -${TAILN:-8}; done
rm -rf $d
