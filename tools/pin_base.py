#!/venv/bin/python
"""pin_base.py : record the digest of /repo's analysed sources as the tree against which /verif/seeded and /verif/benign were confirmed."""
import json, os, subprocess, sys
HERE = os.path.dirname(os.path.dirname(os.path.abspath(__file__)))
sys.path.insert(0, HERE)
from hxsa import variants
repo = sys.argv[1] if len(sys.argv) > 1 else '/repo'
head = subprocess.check_output(['git', '-C', repo, 'rev-parse', '--short', 'HEAD'], text=True).strip()
json.dump({'digest': variants.tree_digest(repo), 'commit': head}, open(os.path.join(HERE, 'seeded', 'BASE.json'), 'w'), indent=1)
print(open(os.path.join(HERE, 'seeded', 'BASE.json')).read())
