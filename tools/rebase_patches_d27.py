import sys,os,tempfile,shutil,subprocess,re
sys.path.insert(0,'/verif')
from hxsa import variants
OLD='a7fa356'
names=sys.argv[1:]
cat={v['name']:v for v in variants.catalogue()}
def sh(cmd,cwd=None):
    return subprocess.run(cmd,shell=True,cwd=cwd,capture_output=True,text=True)
for n in names:
    v=cat[n]
    d=tempfile.mkdtemp(prefix='rb_'); a=os.path.join(d,'a'); b=os.path.join(d,'b'); os.makedirs(a); os.makedirs(b)
    try:
        subprocess.check_call('git -C /repo archive %s | tar -x -C %s'%(OLD,b),shell=True)
        subprocess.check_call('git -C /repo archive HEAD | tar -x -C %s'%(a,),shell=True)
        if not variants.apply_patch(b, v['patch']):
            print(n,'does not apply to OLD either'); continue
        tp=os.path.join(b,'hotxlfp/formulas/text.py')
        s=open(tp).read()
        i=s.find("register_for('TRIM')")
        status='no TRIM?'
        if i>=0:
            j=s.find("\n\n\n",i)
            if j<0: j=len(s)
            body=s[i:j]
            nb=body.replace(".strip()", ".strip(' ')")
            status='fixed %d strip()'%body.count('.strip()')
            s=s[:i]+nb+s[j:]
            open(tp,'w').write(s)
        sh('git init -q . && git add -A && git -c user.email=x@x -c user.name=x commit -qm a',cwd=a)
        # move b's content over a's working tree
        for name in os.listdir(a):
            if name=='.git': continue
            p=os.path.join(a,name)
            shutil.rmtree(p) if os.path.isdir(p) else os.remove(p)
        for name in os.listdir(b):
            src=os.path.join(b,name)
            shutil.copytree(src,os.path.join(a,name)) if os.path.isdir(src) else shutil.copy(src,a)
        sh('git add -A',cwd=a)
        r=sh('git diff --cached',cwd=a)
        open(v['patch'],'w').write(r.stdout)
        print(n,status,len(r.stdout))
    finally:
        shutil.rmtree(d,ignore_errors=True)
