#!/venv/bin/python
"""run_benign.py <dir with Bk/b*.diff> : every check on every candidate benign variant; prints the noisy ones."""
import concurrent.futures, glob, os, shutil, subprocess, sys, tempfile
HERE = os.path.dirname(os.path.dirname(os.path.abspath(__file__)))
PY = '/venv/bin/python'
PROPS = os.environ.get('HXSA_PROPS', '').split(',') if os.environ.get('HXSA_PROPS') else ['C%02d' % i for i in range(1, 21)]

def run(patch):
    d = tempfile.mkdtemp(prefix='hxsa_bn_')
    try:
        sys.path.insert(0, HERE)
        from hxsa import variants
        variants.copy_tree('/repo', d)
        if not variants.apply_patch(d, patch):
            return patch, None
        out = {}
        for p in PROPS:
            env = dict(os.environ, HXSA_EVIDENCE_DIR=os.path.join(d, '_ev'))
            r = subprocess.run([PY, '-m', 'hxsa', 'check', p, '--repo', d], cwd=HERE, capture_output=True, text=True, env=env)
            if r.returncode != 0:
                out[p] = (r.returncode, [l for l in r.stdout.splitlines() if l.startswith(('  ', 'ANALYSIS'))][:3])
        return patch, out
    finally:
        shutil.rmtree(d, ignore_errors=True)

pats = sorted(glob.glob(os.path.join(sys.argv[1], 'B*', 'b*.diff')))
if len(sys.argv) > 2:
    pats = [p for p in pats if any(a in p for a in sys.argv[2:])]
with concurrent.futures.ThreadPoolExecutor(max_workers=8) as ex:
    for patch, out in ex.map(run, pats):
        name = '/'.join(patch.split('/')[-2:])
        if out is None:
            print('%-12s patch does not apply' % name)
        elif not out:
            print('%-12s silent' % name)
        else:
            print('%-12s NOISY %s' % (name, ' '.join('%s(%d)' % (p, rc) for p, (rc, l) in sorted(out.items()))))
            for p, (rc, lines) in sorted(out.items()):
                for l in lines:
                    print('      %s %s' % (p, l.strip()[:260]))
