#!/venv/bin/python
"""Run checks against seeded mutants.

usage: run_seeds.py [--base DIR] [--seeds DIR] [--props C01,C02|all|own] [pattern ...]

For each mutant (a patch + meta naming the property it breaks) make a scratch copy of the base tree (outside /repo
and /verif), apply the patch, run the checks, remove the copy.  Prints which properties raised a VIOLATION.
'own' (default) = only the check of the property the mutant targets.
"""
import argparse
import concurrent.futures
import glob
import json
import os
import shutil
import subprocess
import sys
import tempfile

HERE = os.path.dirname(os.path.dirname(os.path.abspath(__file__)))
PY = '/venv/bin/python'


def available():
    return sorted(os.path.basename(p)[:-3].upper() for p in glob.glob(os.path.join(HERE, 'hxsa', 'rules', 'c[0-9]*.py')))


def run_one(job):
    name, patch, prop, base, props = job
    d = tempfile.mkdtemp(prefix='hxsa_seed_')
    try:
        sys.path.insert(0, HERE)
        from hxsa import variants
        variants.copy_tree(base, d)
        if not variants.apply_patch(d, patch):
            return name, prop, None, 'patch failed'
        # stale generated parse table must not be trusted by accident: keep it (that is the real situation after an edit)
        results = {}
        for p in props:
            env = dict(os.environ)
            env['HXSA_EVIDENCE_DIR'] = os.path.join(d, '_evidence')
            r = subprocess.run([PY, '-m', 'hxsa', 'check', p, '--tier', 'quick', '--repo', d], cwd=HERE,
                               capture_output=True, text=True, env=env)
            lines = [l for l in r.stdout.splitlines() if l.startswith(('VIOLATION', 'ANALYSIS-ERROR', '  '))]
            results[p] = (r.returncode, lines)
        return name, prop, results, None
    finally:
        shutil.rmtree(d, ignore_errors=True)


def main():
    ap = argparse.ArgumentParser()
    ap.add_argument('--base', default='/repo')
    ap.add_argument('--seeds', default=os.path.join(HERE, 'seeded'))
    ap.add_argument('--props', default='own')
    ap.add_argument('--verbose', '-v', action='store_true')
    ap.add_argument('patterns', nargs='*')
    a = ap.parse_args()
    avail = available()
    jobs = []
    if os.path.isdir(os.path.join(a.seeds, 'C01')) and glob.glob(os.path.join(a.seeds, 'C*', 'm*.diff')):
        for patch in sorted(glob.glob(os.path.join(a.seeds, 'C*', 'm*.diff'))):
            prop = os.path.basename(os.path.dirname(patch))
            name = '%s/%s' % (prop, os.path.basename(patch)[:-5])
            jobs.append([name, patch, prop])
    for meta in sorted(glob.glob(os.path.join(a.seeds, '*', 'meta.json'))):
        dd = os.path.dirname(meta)
        mj = json.load(open(meta))
        jobs.append([os.path.basename(dd), os.path.join(dd, 'patch.diff'), mj['property']])
    if a.patterns:
        jobs = [j for j in jobs if any(p in j[0] for p in a.patterns)]
    full = []
    for name, patch, prop in jobs:
        if a.props == 'own':
            props = [prop] if prop in avail else []
        elif a.props == 'all':
            props = avail
        else:
            props = [p for p in a.props.split(',') if p in avail]
        full.append((name, patch, prop, a.base, props))
    caught = missed = skipped = 0
    with concurrent.futures.ThreadPoolExecutor(max_workers=16) as ex:
        for name, prop, results, err in ex.map(run_one, full):
            if err:
                print('%-12s ERROR %s' % (name, err))
                continue
            if not results:
                skipped += 1
                print('%-12s (no check for %s yet)' % (name, prop))
                continue
            hits = [p for p, (rc, lines) in results.items() if rc == 1]
            errs = [p for p, (rc, lines) in results.items() if rc == 2]
            own = results.get(prop)
            status = 'CAUGHT' if hits else 'missed'
            if hits:
                caught += 1
            else:
                missed += 1
            print('%-12s %-6s by=%s%s' % (name, status, ','.join(hits) or '-', (' analysis-error=' + ','.join(errs)) if errs else ''))
            if a.verbose or errs:
                for p, (rc, lines) in results.items():
                    for l in lines:
                        if l.startswith('VIOLATION'):
                            print('      ' + l.split(' replay=')[0] + ' ' + os.path.basename(l.split('replay=')[1]))
                        elif l.startswith('ANALYSIS-ERROR'):
                            print('      ' + l)
                        elif a.verbose:
                            print('      ' + l[:300])
    print('caught=%d missed=%d skipped=%d' % (caught, missed, skipped))


if __name__ == '__main__':
    main()
