#!/venv/bin/python
"""run_stored_benign.py [--props C02,C05] [pattern ...]: the listed checks (default: all 20) on every stored benign variant
(/verif/benign/<name>/patch.diff applied to a scratch copy of /repo); prints the noisy ones."""
import concurrent.futures, glob, os, shutil, subprocess, sys, tempfile
HERE = os.path.dirname(os.path.dirname(os.path.abspath(__file__)))
PY = '/venv/bin/python'
args = sys.argv[1:]
props = ['C%02d' % i for i in range(1, 21)]
if args and args[0].startswith('--props'):
    props = (args[0].split('=', 1)[1] if '=' in args[0] else args[1]).split(',')
    args = args[1:] if '=' in args[0] else args[2:]


def run(patch):
    d = tempfile.mkdtemp(prefix='hxsa_sb_')
    try:
        sys.path.insert(0, HERE)
        from hxsa import variants
        variants.copy_tree('/repo', d)
        if not variants.apply_patch(d, patch):
            return patch, None
        out = {}
        for p in props:
            env = dict(os.environ, HXSA_EVIDENCE_DIR=os.path.join(d, '_ev'))
            r = subprocess.run([PY, '-m', 'hxsa', 'check', p, '--repo', d], cwd=HERE, capture_output=True, text=True, env=env)
            if r.returncode != 0:
                out[p] = (r.returncode, [l for l in r.stdout.splitlines() if l.startswith(('  ', 'ANALYSIS'))][:2])
        return patch, out
    finally:
        shutil.rmtree(d, ignore_errors=True)


pats = sorted(glob.glob(os.path.join(HERE, 'benign', '*', 'patch.diff')))
if args:
    pats = [p for p in pats if any(a in p for a in args)]
noisy = 0
with concurrent.futures.ThreadPoolExecutor(max_workers=int(os.environ.get('HXSA_JOBS', '8'))) as ex:
    for patch, out in ex.map(run, pats):
        name = patch.split('/')[-2]
        if out is None:
            print('%-14s patch does not apply' % name)
        elif out:
            noisy += 1
            print('%-14s NOISY %s' % (name, ' '.join('%s(%d)' % (p, rc) for p, (rc, l) in sorted(out.items()))))
            for p, (rc, lines) in sorted(out.items()):
                for l in lines:
                    print('      %s %s' % (p, l.strip()[:240]))
print('variants %d noisy %d props %s' % (len(pats), noisy, ','.join(props)))
