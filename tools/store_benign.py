#!/venv/bin/python
"""store_benign.py <outdir> : copy verified benign refactorings <outdir>/Bk/bN.diff (+ _check.py, _meta.json) to /verif/benign/w2-Bk-bN/"""
import glob, json, os, shutil, sys
HERE = os.path.dirname(os.path.dirname(os.path.abspath(__file__)))
out = sys.argv[1]
prefix = 'w2'
if len(sys.argv) > 2 and sys.argv[2].startswith('--prefix='):
    prefix = sys.argv.pop(2).split('=', 1)[1]
repl = dict(a.split('=') for a in sys.argv[2:])      # e.g. B7/b4=B7/b4r  (rebased patch to use instead)
for meta in sorted(glob.glob(os.path.join(out, 'B*', 'b?_meta.json'))):
    B = os.path.basename(os.path.dirname(meta))
    b = os.path.basename(meta)[:2]
    patch = os.path.join(out, B, b + '.diff')
    key = '%s/%s' % (B, b)
    if key in repl:
        patch = os.path.join(out, repl[key] + '.diff')
    mj = json.load(open(meta))
    d = os.path.join(HERE, 'benign', '%s-%s-%s' % (prefix, B, b))
    os.makedirs(d, exist_ok=True)
    shutil.copy(patch, os.path.join(d, 'patch.diff'))
    chk = os.path.join(out, B, b + '_check.py')
    if os.path.exists(chk):
        shutil.copy(chk, os.path.join(d, 'check.py'))
    json.dump({'kind': 'benign', 'origin': 'independent sub-agent (given only the area of the code, nothing from /verif)',
               'summary': mj.get('summary', ''), 'why_equivalent': mj.get('why_equivalent', ''), 'files_changed': mj.get('files_changed'),
               'confirmed': {'tests': '165 passed with the patch applied', 'differential_check': 'check.py output byte-identical on HEAD and HEAD+patch',
                             'rebased': key in repl}},
              open(os.path.join(d, 'meta.json'), 'w'), indent=1)
    print('stored', d)
