#!/bin/bash
# verify_benign.sh <Bk> <bN>[suffix]: tests pass and differential check output identical on patched vs clean copy of /repo HEAD
B=$1; b=$2; patch=${3:-${WOUT:-/tmp/w2out}/$B/$b.diff}
chk=${WOUT:-/tmp/w2out}/$B/${b%r}_check.py
d=$(mktemp -d /tmp/vb_XXXX)
mkdir $d/clean $d/patched
(cd /repo && git archive HEAD) | tar -x -C $d/clean
(cd /repo && git archive HEAD) | tar -x -C $d/patched
(cd $d/patched && (git apply --whitespace=nowarn $patch 2>/dev/null || patch -p1 -s -f < $patch)) || { echo "$B/$b PATCH-FAIL"; rm -rf $d; exit 1; }
t=$(cd $d/patched && timeout 600 /venv/bin/python -m pytest -q -p no:cacheprovider 2>&1 | tail -1)
(cd $d/clean && PYTHONPATH=$d/clean PYTHONHASHSEED=0 timeout 900 /venv/bin/python $chk > $d/o1.txt 2>$d/e1.txt)
(cd $d/patched && PYTHONPATH=$d/patched PYTHONHASHSEED=0 timeout 900 /venv/bin/python $chk > $d/o2.txt 2>$d/e2.txt)
if cmp -s $d/o1.txt $d/o2.txt; then same=IDENTICAL; else same=DIFFERENT; fi
echo "$B/$b tests=[$t] check=$same lines=$(wc -l < $d/o1.txt)"
rm -rf $d
